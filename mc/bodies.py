"""Enumeration of clause-body trees over the leaf alphabet (C05, C06, C03, C20).

A symbolic tree is ('L', kind) | (op, l, r) for op in , ; -> | ('\\+', g).
Leaf kinds:
    true fail !      the control atoms
    z                a predicate without definition (no solution)
    o                o(Vi): one solution  (Vi = 1)
    m                m(Vi): two solutions (Vi = 1 ; Vi = 2)
    s                m(V1): two solutions on the variable of the first leaf (shared)
    k                k(Vi): one solution produced by a clause ending in a cut, i.e. the
                     callee yields a truthy value
    t                t2(V1): a test on the variable of the first leaf, false for 1, true for 2 (not
                     in LEAVES; used by families that ask for it)
Leaf i (left to right) owns variable Vi; all Vi are head arguments, so an answer
identifies the path that produced it.
"""
from .terms import A, C, F, V, call, TRUE, FAIL, CUT

LEAVES = ['true', 'fail', '!', 'z', 'o', 'm', 's', 'k']
BINOPS = [',', ';', '->']

LEAF_PROGRAM = [
    (F('o', C(1)), TRUE),
    (F('m', C(1)), TRUE),
    (F('m', C(2)), TRUE),
    (F('k', C(1)), CUT),
    (F('k', C(2)), TRUE),
    (F('t2', C(2)), TRUE),
]
# one NAME at two arities: kk/0 has a single clause that ends in a cut, kk/1 has plain facts. These
# clauses go into the SAME script as the clause that calls kk (what a compiler knows about a callee
# it knows from its own compilation unit)
KK_CLAUSES = [
    (A('kk'), (',', call(F('o', C(1))), CUT)),
    (F('kk', C(1)), TRUE),
    (F('kk', C(2)), TRUE),
]

_cache = {}


def trees(n, leaves=None):
    """all symbolic trees with exactly n operators, deterministic order"""
    leaves = tuple(leaves or LEAVES)
    key = (n, leaves)
    r = _cache.get(key)
    if r is not None:
        return r
    if n == 0:
        r = [('L', k) for k in leaves]
    else:
        r = [('\\+', g) for g in trees(n - 1, leaves)]
        for op in BINOPS:
            for i in range(n):
                for l in trees(i, leaves):
                    for rr in trees(n - 1 - i, leaves):
                        r.append((op, l, rr))
    _cache[key] = r
    return r


def count_ops(t):
    if t[0] == 'L':
        return 0
    if t[0] == '\\+':
        return 1 + count_ops(t[1])
    return 1 + count_ops(t[1]) + count_ops(t[2])


def cut_positions(t, opaque=False):
    """-> (n_transparent_cuts, n_opaque_cuts)"""
    if t[0] == 'L':
        if t[1] == '!':
            return (0, 1) if opaque else (1, 0)
        return (0, 0)
    if t[0] == '\\+':
        return cut_positions(t[1], True)
    if t[0] == '->':
        a = cut_positions(t[1], True)
        b = cut_positions(t[2], opaque)
        return (a[0] + b[0], a[1] + b[1])
    a = cut_positions(t[1], opaque)
    b = cut_positions(t[2], opaque)
    return (a[0] + b[0], a[1] + b[1])


def ops_used(t, acc=None):
    acc = set() if acc is None else acc
    if t[0] != 'L':
        acc.add(t[0])
        for c in t[1:]:
            ops_used(c, acc)
    return acc


def instantiate(t):
    """symbolic tree -> (body, number_of_leaf_variables)"""
    counter = [0]

    def go(t):
        if t[0] == 'L':
            counter[0] += 1
            i = counter[0]
            k = t[1]
            if k == 'true':
                return TRUE
            if k == 'fail':
                return FAIL
            if k == '!':
                return CUT
            if k == 'z':
                return call(A('z'))
            if k == 's':
                return call(F('m', V('V1')))
            if k == 'j':
                # a call of kk/0, a predicate with one clause, a variable-free body and a cut, whose
                # name is also used (at arity 1) by a predicate without cut
                return call(A('kk'))
            if k == 't':
                # a TEST on the variable of the FIRST leaf that fails for its first solution (1) and
                # succeeds for a later one (2): whether a construct has committed to the first
                # solution of its condition shows in the answers
                return call(F('t2', V('V1')))
            if k == 'q':
                # a TEST on the variable P of the goal m(P) that the context puts in front of the
                # body: succeeds for P = 1, fails for P = 2 - its outcome differs between the entries
                # of the construct it is part of
                return call(F('o', V('P')))
            return call(F(k, V('V%d' % i)))
        if t[0] == '\\+':
            return ('\\+', go(t[1]))
        return (t[0], go(t[1]), go(t[2]))
    b = go(t)
    return b, counter[0]


def show_tree(t):
    if t[0] == 'L':
        return t[1]
    if t[0] == '\\+':
        return '\\+' + show_tree(t[1])
    return '(%s %s %s)' % (show_tree(t[1]), t[0], show_tree(t[2]))


def context_program(body, k, pname='p', cname='c', continuation=False, prefix=False, suffix=0, wrapped=False):
    """the adversarial context of DESIGN C05:
         p(V1..Vk[,P][,W[,W2]]) :- [m(P),] BODY [, m(W) [, o(W2)]].
         p(9,..,9).                         a later clause of the same predicate
         c(V1..Vk..,Z) :- m(Z), p(V1..).    a caller with two alternatives
       prefix: a goal with two solutions to the LEFT of the body (its alternatives must be cut);
       suffix: 0, 1 or 2 goals to the RIGHT of the body (they must still backtrack)
    """
    if continuation and not suffix:
        suffix = 1
    hv = [V('V%d' % i) for i in range(1, k + 1)]
    if prefix:
        hv = hv + [V('P')]
        body = (',', call(F('m', V('P'))), body)
    if suffix >= 1:
        hv = hv + [V('W')]
        if suffix >= 2:
            hv = hv + [V('W2')]
            body = (',', body, (',', call(F('m', V('W'))), call(F('o', V('W2')))))
        else:
            body = (',', body, call(F('m', V('W'))))
    nine = [C(9)] * len(hv)
    if wrapped and hv:
        # the clause gets ONE argument S and starts with S = w(V1..Vn): the variables the goals bind are
        # inside a structure that was put together BEFORE they are bound (outer first, inner later)
        body = (',', call(F('=', V('S'), F('w', *hv))), body)
        nine = [F('w', *nine)]
        hv = [V('S')]
    head = F(pname, *hv) if hv else A(pname)
    head9 = F(pname, *nine) if hv else A(pname)
    chead = F(cname, *(hv + [V('Z')]))
    cbody = (',', call(F('m', V('Z'))), call(head))
    return [(head, body), (head9, TRUE), (chead, cbody)], len(hv)
