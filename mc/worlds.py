"""Two worlds with the same small API - the real engine and the reference model - so that a
history (a list of steps) can be executed on both in lock-step and compared after every step.

Handles represent suspended enumerations.  An enumeration may be started "under" another
handle (its bindings are then visible, as in nested generators); observations are canonical
(mc.refprolog.canon / mc.impl.observe) so the two worlds are directly comparable.
"""
from . import impl
from .refprolog import Ref, canon, unify_nsto, Cyclic, Unspecified, Budget
from .terms import term_vars


class ImplWorld:
    def __init__(self):
        self.yp = impl.YP()
        self.vars = {}

    def load(self, pytext, overwrite=True):
        self.yp.load_script_from_string(pytext, fn=impl.SCRIPT_FN, overwrite=overwrite)

    def term(self, t):
        return impl.to_engine(self.yp, t, self.vars)

    def assert_fact(self, t, append=True):
        args = [self.term(x) for x in (t[2] if t[0] == 'f' else ())]
        self.yp.assert_fact(self.yp.atom(t[1]), args, append)
        # the argument list belongs to the caller, who may reuse it (a row buffer refilled for the
        # next fact): the stored fact must not depend on it
        args[:] = ['overwritten by the caller'] * len(args)

    def start(self, goal, under=None):
        """suspended enumeration of goal; -> handle"""
        if goal[0] == 'a':
            q = self.yp.query(goal[1], [])
        else:
            q = self.yp.query(goal[1], [self.term(x) for x in goal[2]])
        return {'gen': q, 'done': False}

    def start_unify(self, lhs, rhs, under=None):
        return {'gen': iter(impl.engine.unify(self.term(lhs), self.term(rhs))), 'done': False}

    def start_match(self, goal):
        """the dynamic facts enumerated through the API function that loaded scripts and hand-written
        predicates use for it: yp.match_dynamic(atom, args)"""
        args = [self.term(x) for x in goal[2]] if goal[0] == 'f' else []
        return {'gen': iter(self.yp.match_dynamic(self.yp.atom(goal[1]), args)), 'done': False}

    def start_via_variable(self, goal):
        """goal = builtin(Arg): Arg reaches the builtin in a variable G that is bound by a unification
        of the caller's; the handle keeps that unification so that it can be ended (release) while the
        enumeration is still suspended - the enumeration was asked for the goal G stood for when it was made"""
        g = self.yp.variable()
        u = iter(impl.engine.unify(g, self.term(goal[2][0])))
        next(u)
        return {'gen': self.yp.query(goal[1], [g]), 'done': False, 'goalvar': g, 'unifiers': [u]}

    def release(self, h, rebind=False):
        for u in h['unifiers']:
            u.close()
        h['unifiers'] = []
        if rebind:
            u = iter(impl.engine.unify(h['goalvar'], self.yp.functor('other', [self.yp.variable(), self.yp.variable()])))
            next(u)
            h['unifiers'] = [u]

    def step(self, h):
        """-> True if an answer was produced, False if exhausted"""
        if h['done']:
            return False
        try:
            next(h['gen'])
            return True
        except StopIteration:
            h['done'] = True
            return False

    def close(self, h):
        h['done'] = True
        h['gen'].close()
        for u in h.get('unifiers', ()):
            u.close()

    def observe(self, terms, h=None):
        return impl.observe([self.term(t) for t in terms])

    def clear(self):
        self.yp.clear()


class RefWorld:
    def __init__(self, steps=20000, depth=60):
        self.ref = Ref(steps, depth)
        self.vars = {}

    def load(self, clauses, overwrite=True):
        self.ref.consult(clauses, overwrite)

    def term(self, t):
        return self.ref.rename(t, self.vars)

    def assert_fact(self, t, append=True, under=None):
        self.ref.assert_fact(self.term(t), env=(under['env'] if under else None), append=append)

    def start(self, goal, under=None):
        env = under['env'] if under is not None and under.get('env') is not None else {}
        return {'gen': self.ref.iter_env(self.term(goal), env), 'env': None, 'done': False, 'base': env}

    def start_via_variable(self, goal):
        return self.start(goal)

    def start_match(self, goal):
        return self.start(goal)

    def release(self, h, rebind=False):
        pass

    def start_unify(self, lhs, rhs, under=None):
        env = under['env'] if under is not None and under.get('env') is not None else {}

        def g():
            e = unify_nsto(self.term(lhs), self.term(rhs), env)
            if e is not None:
                yield e
        return {'gen': g(), 'env': None, 'done': False, 'base': env}

    def step(self, h):
        if h['done']:
            return False
        try:
            h['env'] = next(h['gen'])
            return True
        except StopIteration:
            h['done'] = True
            h['env'] = None
            return False

    def close(self, h):
        h['done'] = True
        h['env'] = None
        h['gen'].close()

    def observe(self, terms, h=None):
        env = {}
        if h is not None:
            env = h['env'] if h.get('env') is not None else h.get('base', {})
        return canon([self.term(t) for t in terms], env)

    def clear(self):
        self.ref.clear()


def facts_impl(w, key, cap=40):
    """read back the dynamic facts AND definitions of name/arity with an all-variables query"""
    name, n = key
    vs = [w.yp.variable() for _ in range(n)]
    rows = []
    q = w.yp.query(name, vs)
    for _ in q:
        rows.append(impl.observe(vs))
        if len(rows) > cap:
            q.close()
            rows.append('runaway')
            break
    return tuple(rows)


def facts_ref(w, key, cap=40):
    name, n = key
    vs = [w.ref.fresh() for _ in range(n)]
    goal = ('f', name, tuple(vs)) if n else ('a', name)
    rows = []
    for e in w.ref.iter_env(goal):
        rows.append(canon(vs, e))
        if len(rows) > cap:
            rows.append('runaway')
            break
    return tuple(rows)
