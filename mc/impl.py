"""Bridge to the implementation under test (always the working tree in /repo/src)."""
import os
import sys
import traceback

REPO = os.environ.get('VERIF_REPO', '/repo')
SRC = os.path.join(REPO, 'src')
GUARD = 'YLDPROLOG_VERIF'
os.environ.setdefault(GUARD, '1')
if SRC not in sys.path:
    sys.path.insert(0, SRC)

import yldprolog  # noqa: E402

if not os.path.realpath(yldprolog.__file__).startswith(os.path.realpath(SRC) + os.sep):
    raise RuntimeError('yldprolog imported from %s, expected under %s' % (yldprolog.__file__, SRC))

import yldprolog.engine as engine  # noqa: E402
import yldprolog.compiler as compiler  # noqa: E402
from yldprolog.engine import YP, Atom, Variable, Functor  # noqa: E402

SCRIPT_FN = '<yp-script>'


class Ctx:
    debug_filename = ''
    debug_parser = False
    debug_generator = False
    current_source_file = ''
    outf = None


def compile_text(text):
    return compiler.compile_prolog_from_string(text, Ctx)


def to_engine(yp, t, varmap, dots='listpair'):
    """dots: how a two-argument compound named '.' is built - with yp.listpair (as list syntax does)
    or with yp.functor('.', [h, t]) (as '.'(H,T) does); both are the same term"""
    k = t[0]
    if k == 'a':
        return yp.atom(TextName(t[1]) if dots == 'textnames' else t[1])
    if k == 'c':
        return fresh_constant(t[1])
    if k == 'v':
        v = varmap.get(t[1])
        if v is None:
            v = varmap[t[1]] = yp.variable()
        return v
    if k == 'f':
        args = [to_engine(yp, a, varmap, dots) for a in t[2]]
        if t[1] == '.' and len(args) == 2 and dots != 'functor':
            return yp.listpair(args[0], args[1])
        return yp.functor(TextName(t[1]) if dots == 'textnames' else t[1], args)
    raise ValueError(t)


class TextName(str):
    """a name given as an instance of a str SUBCLASS (as enum.StrEnum members or the strings of
    parsing libraries are): equal text, another type, a fresh object every time"""
    __slots__ = ()


def fresh_constant(v):
    """an equal but (where Python allows) distinct object, so that comparing constants by
    identity instead of equality is visible"""
    if isinstance(v, bool):
        return v
    if isinstance(v, int):
        return int(str(v))
    if isinstance(v, str):
        return ''.join(list(v)) if len(v) > 1 else v
    return v


def observe(terms):
    """canonical observation of a list of engine terms, comparable with refprolog.canon"""
    names = {}

    def walk(t):
        t = engine.get_value(t)
        if isinstance(t, Variable):
            n = names.get(id(t))
            if n is None:
                n = names[id(t)] = len(names)
            return ('v', n)
        if isinstance(t, Atom):
            return ('a', t.name())
        if isinstance(t, Functor):
            return ('f', t._name, tuple(walk(a) for a in t._args))
        if isinstance(t, (list, tuple, dict, set)):
            return ('c', repr(t))
        return ('c', t)
    keep = list(terms)  # keep objects alive so ids stay unique while walking
    r = tuple(walk(t) for t in keep)
    return r


def where(exc):
    """innermost frame of the traceback that lies in yldprolog or in a loaded script"""
    tb = traceback.extract_tb(exc.__traceback__)
    loc = None
    for fr in tb:
        fn = fr.filename
        if fn == SCRIPT_FN:
            loc = 'script:' + fr.name
        elif os.sep + 'yldprolog' + os.sep in fn:
            loc = os.path.basename(fn) + ':' + fr.name
    return loc or 'harness'


def exc_sig(exc):
    return '%s@%s' % (type(exc).__name__, where(exc))


class HeldAtoms:
    """the engine as seen by a caller that keeps the Atom objects it once obtained: atom(name)
    returns the object from the first time it was asked for, everything else is the engine's"""

    def __init__(self, yp, names=()):
        self._yp = yp
        self._atoms = {}
        for nm in names:
            self.atom(nm)

    def atom(self, name, module=None):
        a = self._atoms.get(name)
        if a is None:
            a = self._atoms[name] = self._yp.atom(name)
        return a

    def __getattr__(self, name):
        return getattr(self._yp, name)


class UserVariable(Variable):
    """a caller's own term class (terms are dispatched on by isinstance in the engine)"""


class UserFunctor(Functor):
    pass


class UserTerms:
    """the engine as seen by a caller that builds its terms from its own subclasses of the term classes"""

    def __init__(self, yp):
        self._yp = yp

    def variable(self):
        return UserVariable()

    def functor(self, name, args):
        return UserFunctor(name, list(args))

    def listpair(self, head, tail):
        return UserFunctor('.', [head, tail])

    def __getattr__(self, name):
        return getattr(self._yp, name)


def atom_names(t, acc=None):
    acc = set() if acc is None else acc
    if t[0] == 'a':
        acc.add(t[1])
    elif t[0] == 'f':
        for x in t[2]:
            atom_names(x, acc)
    return acc


def new_engine(pytext=None, overwrite=True):
    yp = YP()
    if pytext is not None:
        yp.load_script_from_string(pytext, fn=SCRIPT_FN, overwrite=overwrite)
    return yp


def run_query(yp, goal, obs, cap=None, varmap=None):
    """run goal (a reference term) on engine yp; returns (answers, status, exc)
    status: 'complete' | 'cap' | 'exception'"""
    varmap = {} if varmap is None else varmap
    if goal[0] == 'a':
        name, args = goal[1], []
    else:
        name, args = goal[1], [to_engine(yp, a, varmap) for a in goal[2]]
    obsterms = [to_engine(yp, t, varmap) for t in obs]
    answers = []
    q = yp.query(name, args)
    try:
        for _ in q:
            answers.append(observe(obsterms))
            if cap is not None and len(answers) >= cap:
                q.close()
                return answers, 'cap', None
    except Exception as e:  # noqa: BLE001 - every exception is an observation
        return answers, 'exception', e
    return answers, 'complete', None
