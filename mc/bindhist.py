"""Bind/unbind histories: every sequence of operations `push equation` / `pop` (close the most
recent unification), with ALL variables looked up after every operation.

Used by C15 (the lookups must reflect exactly the active bindings, at every depth, whatever was
bound, looked up and undone before) and by C03 (after a pop every variable must be back in
exactly the binding state - including the identity of the variables its value refers to - that
it had before the matching push).  The reference is a stack of substitutions (mc.refprolog).
"""
from . import impl
from .refprolog import unify_nsto, canon, Cyclic
from .terms import A, F, V, L, NIL, pp

X, Y, Z, W = V('X'), V('Y'), V('Z'), V('W')
VARS = [X, Y, Z, W]
EQS = [(X, Y), (Y, Z), (Z, W), (Y, A('b')), (Z, A('a')), (X, F('f', Y)), (Y, F('g', Z, W)), (W, A('c')), (X, Z),
       (Z, L([W], NIL)), (X, L([A('a')], Y))]


def raw(t, names):
    if isinstance(t, impl.Variable):
        if t.get_value() is t:
            return ('v', names.setdefault(id(t), len(names)))
        return ('BOUND-VARIABLE', raw(t.get_value(), names))
    if isinstance(t, impl.Atom):
        return ('a', t.name())
    if isinstance(t, impl.Functor):
        return ('f', t._name, tuple(raw(x, names) for x in t._args))
    return ('c', t)


def ident_state(vs):
    """identity-sensitive binding state of the variables"""
    def go(t):
        t = impl.engine.get_value(t)
        if isinstance(t, impl.Variable):
            return ('v', id(t))
        if isinstance(t, impl.Atom):
            return ('a', t.name())
        if isinstance(t, impl.Functor):
            return ('f', t._name, tuple(go(a) for a in t._args))
        return ('c', repr(t))
    return tuple(('unbound',) if v.get_value() is v else go(v) for v in vs)


def describe(ops):
    out = []
    for op in ops:
        if op == 'pop':
            out.append('undo')
        else:
            out.append('%s = %s' % (pp(EQS[op][0]), pp(EQS[op][1])))
    return ' ; '.join(out)


def run_history(ops, kinds=('lookup', 'restore')):
    """ops: sequence of equation indices and 'pop'.  -> ('ok', trace, steps) | ('skip', why) |
    ('violation', kind, detail) with kind in 'lookup' (C15) | 'restore' (C03)"""
    yp = impl.YP()
    vm = {}
    ev = [impl.to_engine(yp, v, vm) for v in VARS]
    gens = []
    envs = [{}]
    states = [ident_state(ev)]
    trace = []
    steps = 0
    for n, op in enumerate(ops):
        if op == 'pop':
            if not gens:
                return ('skip', 'pop on empty stack')
            g = gens.pop()
            g.close()
            envs.pop()
            states.pop()
            steps += 1
            now = ident_state(ev)
            if now != states[-1] and 'restore' in kinds:
                return ('violation', 'restore', 'operations: %s\nafter undoing the last unification the variables (X,Y,Z,W) are in state\n  %r\nbut before it was made they were in state\n  %r'
                        % (describe(ops[:n + 1]), now, states[-1]))
        else:
            l, r = EQS[op]
            try:
                e = unify_nsto(l, r, envs[-1])
            except Cyclic:
                return ('skip', 'cyclic')
            g = iter(impl.engine.unify(impl.to_engine(yp, l, vm), impl.to_engine(yp, r, vm)))
            steps += 1
            try:
                next(g)
                ok = True
            except StopIteration:
                ok = False
            if ok != (e is not None):
                if 'lookup' not in kinds:
                    return ('skip', 'diverged from the reference (reported by C15)')
                return ('violation', 'lookup', 'operations: %s\nthe last unification %s but the reference says it %s'
                        % (describe(ops[:n + 1]), 'succeeded' if ok else 'failed', 'fails' if e is None else 'succeeds'))
            if not ok:
                # a failed unification leaves nothing behind; the history continues without it
                now = ident_state(ev)
                if now != states[-1] and 'restore' in kinds:
                    return ('violation', 'restore', 'operations: %s\nthe failed unification left the variables in state %r (before: %r)' % (describe(ops[:n + 1]), now, states[-1]))
                continue
            gens.append(g)
            envs.append(e)
            states.append(ident_state(ev))
        # look everything up (the lookup itself is part of the history)
        names = {}
        got = tuple(raw(impl.engine.get_value(v), names) for v in ev)
        exp = canon(VARS, envs[-1])
        if got != exp and 'lookup' in kinds:
            return ('violation', 'lookup', 'operations: %s\nget_value of (X,Y,Z,W) now gives\n  %r\nbut the active bindings are\n  %r' % (describe(ops[:n + 1]), got, exp))
        trace.append(exp)
    if 'lookup' in kinds and gens:
        bad = interrupted_lookups(ev, envs[-1], ops)
        if bad:
            return bad
        steps += 1
    for g in reversed(gens):
        g.close()
    return ('ok', tuple(trace), steps)


def interrupted_lookups(ev, env, ops):
    """fault enumeration on the lookup itself: get_value / to_python are run under every
    recursion limit from just above the current stack depth upwards, so that the interpreter's
    RecursionError strikes at every depth of the dereferencing; afterwards (limit restored) the
    lookups must give exactly what they gave before"""
    import sys
    depth = 0
    f = sys._getframe()
    while f is not None:
        depth += 1
        f = f.f_back
    old = sys.getrecursionlimit()
    exp = canon(VARS, env)
    for lim in range(depth + 2, depth + 16):
        partial = None
        try:
            sys.setrecursionlimit(lim)
            for v in ev:
                r = impl.engine.get_value(v)
                sys.setrecursionlimit(old)
                # a lookup that RETURNS under a low limit returns the value, not a part of it
                nm = {}
                if raw(r, nm) != canon([VARS[ev.index(v)]], env)[0]:
                    partial = (VARS[ev.index(v)][1], raw(r, {}))
                    break
                sys.setrecursionlimit(lim)
                impl.engine.to_python(v) if not _partial(v) else None
        except RecursionError:
            pass
        except Exception:  # noqa: BLE001 - to_python of odd shapes may raise; not judged here
            pass
        finally:
            sys.setrecursionlimit(old)
        if partial is not None:
            return ('violation', 'lookup-returns-partial-value', 'operations: %s\nunder recursion limit %d (stack depth %d) get_value(%s) RETURNED %r instead of raising or returning the value; the active bindings are %r'
                    % (describe(ops), lim, depth, partial[0], partial[1], exp))
        names = {}
        got = tuple(raw(impl.engine.get_value(v), names) for v in ev)
        if got != exp:
            return ('violation', 'lookup', 'operations: %s\nafter a lookup that was interrupted by a RecursionError (recursion limit %d, stack depth %d) get_value of (X,Y,Z,W) gives\n  %r\nbut the active bindings are\n  %r'
                    % (describe(ops), lim, depth, got, exp))
    return None


def _partial(v):
    return False


def histories(depth, neqs=len(EQS)):
    """all operation sequences of exactly `depth` operations in which no pop hits an empty stack"""
    def rec(prefix, height):
        if len(prefix) == depth:
            yield tuple(prefix)
            return
        for e in range(neqs):
            prefix.append(e)
            yield from rec(prefix, height + 1)
            prefix.pop()
        if height > 0:
            prefix.append('pop')
            yield from rec(prefix, height - 1)
            prefix.pop()
    yield from rec([], 0)
