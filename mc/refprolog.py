"""RefProlog - the boring reference interpreter (oracle).

Textbook depth-first, left-to-right SLD resolution over the term representation of
mc.terms, with persistent (copied) substitutions, so abandoning an enumeration needs no
undo and several enumerations can be suspended at the same time.

* standard cut: transparent through ',' ';' and the then/else branches of '->', local
  (opaque) in the condition of '->', in '\\+', call/N, once/1 and findall/3
* '=' '\\=' call/N once/1 findall/3 asserta/1 assertz/1 retract/1 retractall/1
* dynamic facts: copy on assert, rename on use, logical update view
* call resolution as in property C08: dynamic facts of name/N first, then every
  definition registered for name/N in registration order (each with its own cut scope),
  a variadic definition only if there is no exact one, unknown => fail
* no occurs check; a binding that would create a cyclic term raises Cyclic (the case is
  unspecified and skipped by the callers)
* step and depth budgets: Budget is raised, the caller compares a prefix only
"""

from .terms import NIL, term_vars


class Budget(Exception):
    pass


class Cyclic(Exception):
    pass


class Unspecified(Exception):
    """behaviour the properties do not fix (e.g. calling an unbound variable)"""


def deref(t, env):
    while t[0] == 'v':
        b = env.get(t[1])
        if b is None:
            return t
        t = b
    return t


def resolve(t, env):
    t = deref(t, env)
    if t[0] == 'f':
        return ('f', t[1], tuple(resolve(a, env) for a in t[2]))
    return t


def occurs(key, t, env):
    t = deref(t, env)
    if t[0] == 'v':
        return t[1] == key
    if t[0] == 'f':
        for a in t[2]:
            if occurs(key, a, env):
                return True
    return False


def const_eq(a, b):
    # Python constants: same type and equal (bool/int/float confusion is excluded from
    # every alphabet; see DESIGN 2.1)
    return type(a) is type(b) and a == b


def unify(a, b, env):
    """returns the extended substitution or None"""
    stack = [(a, b)]
    new = None
    cur = env
    while stack:
        x, y = stack.pop()
        x = deref(x, cur)
        y = deref(y, cur)
        if x[0] == 'v':
            if y[0] == 'v' and y[1] == x[1]:
                continue
            if occurs(x[1], y, cur):
                raise Cyclic()
            if new is None:
                new = dict(cur)
                cur = new
            new[x[1]] = y
            continue
        if y[0] == 'v':
            if occurs(y[1], x, cur):
                raise Cyclic()
            if new is None:
                new = dict(cur)
                cur = new
            new[y[1]] = x
            continue
        if x[0] != y[0]:
            return None
        if x[0] == 'a':
            if x[1] != y[1]:
                return None
        elif x[0] == 'c':
            if not const_eq(x[1], y[1]):
                return None
        else:
            if x[1] != y[1] or len(x[2]) != len(y[2]):
                return None
            # left-to-right order does not matter for the result (mgu up to renaming),
            # but keep it natural
            for p, q in reversed(list(zip(x[2], y[2]))):
                stack.append((p, q))
    return cur


def sto(a, b, env):
    """True iff the equation a = b is 'subject to occurs check' in the sense of ISO 7.3.3:
    some order of the unification steps could create a cyclic binding.  Decided order-
    independently (and conservatively) by computing the congruence closure of the equation
    with symbol clashes ignored and looking for a cycle in the class graph."""
    parent = {}
    members = {}     # root -> {(name, arity): args}
    nodes = {}       # key -> term

    def key(t):
        if t[0] == 'v':
            return ('v', t[1])
        if t[0] == 'f':
            return ('f', id(t))
        return ('k', t)

    def find(k):
        while parent.get(k, k) != k:
            parent[k] = parent.get(parent[k], parent[k])
            k = parent[k]
        return k

    def add(t):
        k = key(t)
        if k not in nodes:
            nodes[k] = t
            parent[k] = k
            members[k] = {}
            if t[0] == 'f':
                members[k][(t[1], len(t[2]))] = t[2]
                for x in t[2]:
                    add(deref(x, env))
        return k

    work = [(a, b)]
    while work:
        x, y = work.pop()
        x, y = deref(x, env), deref(y, env)
        if x[0] in ('a', 'c') or y[0] in ('a', 'c'):
            # constants are leaves: they cannot take part in a cyclic binding
            for z in (x, y):
                if z[0] == 'f':
                    add(z)
            continue
        rx, ry = find(add(x)), find(add(y))
        if rx == ry:
            continue
        parent[ry] = rx
        for sig, args in members.pop(ry).items():
            mine = members[rx].get(sig)
            if mine is None:
                members[rx][sig] = args
            else:
                work.extend(zip(mine, args))
    # cycle detection on the class graph
    state = {}

    def visit(r):
        st = state.get(r)
        if st == 1:
            return True
        if st == 2:
            return False
        state[r] = 1
        for args in members[r].values():
            for x in args:
                if visit(find(key(deref(x, env)))):
                    return True
        state[r] = 2
        return False
    for k in list(nodes):
        if visit(find(k)):
            return True
    return False


def unify_nsto(a, b, env):
    """unify, but raise Cyclic for every equation that is subject to occurs check, also
    when this particular order of steps happens to fail (or succeed) without meeting it"""
    r = unify(a, b, env)
    if r is None and sto(a, b, env):
        raise Cyclic()
    return r


def canon(terms, env=None):
    """canonical observation of a tuple of terms: fully dereferenced, variables numbered
    in order of first occurrence (so equality = equality up to renaming incl. aliasing)"""
    env = env or {}
    names = {}

    def walk(t):
        t = deref(t, env)
        if t[0] == 'v':
            n = names.get(t[1])
            if n is None:
                n = names[t[1]] = len(names)
            return ('v', n)
        if t[0] == 'f':
            return ('f', t[1], tuple(walk(a) for a in t[2]))
        return t
    return tuple(walk(t) for t in terms)


BUILTINS = {('=', 2), ('\\=', 2), ('once', 1), ('findall', 3), ('asserta', 1),
            ('assertz', 1), ('retract', 1), ('retractall', 1)}


class Ref:
    def __init__(self, step_budget=20000, depth_budget=120):
        self.defs = {}      # (name, arity|'n') -> list of definitions (lists of clauses)
        self.db = {}        # (name, arity) -> list of (fid, term)
        self.nvar = 0
        self.nfid = 0
        self.steps = 0
        self.step_budget = step_budget
        self.depth_budget = depth_budget
        self.max_depth = 0

    # ---- variables ---------------------------------------------------------------
    def fresh(self):
        self.nvar += 1
        return ('v', self.nvar)

    def rename(self, t, mapping):
        k = t[0]
        if k == 'v':
            r = mapping.get(t[1])
            if r is None:
                r = mapping[t[1]] = self.fresh()
            return r
        if k == 'f':
            return ('f', t[1], tuple(self.rename(a, mapping) for a in t[2]))
        return t

    def rename_body(self, b, mapping):
        k = b[0]
        if k == 'call':
            return ('call', self.rename(b[1], mapping))
        if k in (',', ';', '->'):
            return (k, self.rename_body(b[1], mapping), self.rename_body(b[2], mapping))
        if k == '\\+':
            return (k, self.rename_body(b[1], mapping))
        return b

    # ---- program -----------------------------------------------------------------
    def consult(self, clauses, overwrite=True):
        """load a script: its clauses grouped per name/arity form one definition each"""
        groups = {}
        for head, body in clauses:
            key = (head[1], len(head[2]) if head[0] == 'f' else 0)
            groups.setdefault(key, []).append((head, body if body is not None else ('true',)))
        for key, cl in groups.items():
            if overwrite:
                self.defs[key] = [cl]
            else:
                self.defs.setdefault(key, []).append(cl)

    def register(self, key, definition):
        """register_function: replaces whatever is registered under that key; definition is a
        list of clauses or a callable model d(ref, args, env) -> envs"""
        self.defs[key] = [definition if callable(definition) else list(definition)]

    def clear(self):
        self.defs = {}
        self.db = {}

    def assert_fact(self, term, env=None, append=True):
        t = resolve(term, env or {})
        t = self.rename(t, {})
        key = (t[1], len(t[2]) if t[0] == 'f' else 0)
        self.nfid += 1
        lst = self.db.setdefault(key, [])
        if append:
            lst.append((self.nfid, t))
        else:
            lst.insert(0, (self.nfid, t))

    def facts(self, key):
        return [canon([t])[0] for _, t in self.db.get(key, [])]

    # ---- search ------------------------------------------------------------------
    def tick(self, depth):
        self.steps += 1
        if self.steps > self.step_budget:
            raise Budget('steps')
        if depth > self.depth_budget:
            raise Budget('depth')
        if depth > self.max_depth:
            self.max_depth = depth

    def solve(self, body, env, cut, depth):
        k = body[0]
        if k == 'true':
            yield env
        elif k == 'fail':
            return
        elif k == '!':
            yield env
            cut[0] = True
        elif k == ',':
            for e1 in self.solve(body[1], env, cut, depth):
                for e2 in self.solve(body[2], e1, cut, depth):
                    yield e2
                if cut[0]:
                    return
        elif k == ';':
            lhs = body[1]
            if lhs[0] == '->':
                e1 = None
                it = self.solve(lhs[1], env, [False], depth)
                for e1 in it:
                    break
                it.close()
                if e1 is not None:
                    yield from self.solve(lhs[2], e1, cut, depth)
                else:
                    yield from self.solve(body[2], env, cut, depth)
            else:
                yield from self.solve(lhs, env, cut, depth)
                if cut[0]:
                    return
                yield from self.solve(body[2], env, cut, depth)
        elif k == '->':
            e1 = None
            it = self.solve(body[1], env, [False], depth)
            for e1 in it:
                break
            it.close()
            if e1 is not None:
                yield from self.solve(body[2], e1, cut, depth)
        elif k == '\\+':
            found = False
            it = self.solve(body[1], env, [False], depth)
            for _ in it:
                found = True
                break
            it.close()
            if not found:
                yield env
        elif k == 'call':
            yield from self.solve_call(body[1], env, depth)
        else:
            raise ValueError(body)

    def solve_call(self, goal, env, depth):
        goal = deref(goal, env)
        if goal[0] == 'v':
            raise Unspecified('unbound goal')
        if goal[0] == 'a':
            name, args = goal[1], ()
        elif goal[0] == 'f':
            name, args = goal[1], goal[2]
        else:
            raise Unspecified('goal is a constant')
        self.tick(depth)
        n = len(args)
        key = (name, n)
        if name == 'call' and n >= 1:
            g = deref(args[0], env)
            if g[0] == 'v' or g[0] == 'c':
                raise Unspecified('call of non-callable')
            if g[0] == 'a':
                g2 = ('f', g[1], tuple(args[1:])) if n > 1 else g
            else:
                g2 = ('f', g[1], tuple(g[2]) + tuple(args[1:]))
            yield from self.solve_call(g2, env, depth + 1)
            return
        if key in BUILTINS and key not in self.defs:
            yield from self.builtin(key, args, env, depth)
            return
        # the call is resolved NOW: snapshot of the dynamic facts (logical update view) and of the
        # definitions registered for this name/arity (C08: "resolves, at the moment it is made")
        facts = list(self.db.get(key, ()))
        defs = self.defs.get(key)
        if defs is None:
            defs = self.defs.get((name, 'n'))
        defs = list(defs or ())
        for fid, fact in facts:
            self.tick(depth)
            f2 = self.rename(fact, {})
            e = unify_nsto(goal, f2, env) if n else env
            if e is not None:
                yield e
        if not defs:
            return
        for d in defs:
            if callable(d):
                # model of a registered Python predicate: d(ref, args, env) yields envs
                yield from d(self, args, env)
                continue
            cut = [False]
            for head, body in d:
                self.tick(depth)
                m = {}
                h2 = self.rename(head, m)
                if h2[0] == 'f' and len(h2[2]) != n:
                    # variadic definition with a fixed-arity head: no match
                    continue
                e = unify_nsto(goal, h2, env) if n else env
                if e is not None:
                    b2 = self.rename_body(body, m)
                    yield from self.solve(b2, e, cut, depth + 1)
                if cut[0]:
                    break

    def builtin(self, key, args, env, depth):
        name = key[0]
        if name == '=':
            e = unify_nsto(args[0], args[1], env)
            if e is not None:
                yield e
        elif name == '\\=':
            e = unify_nsto(args[0], args[1], env)
            if e is None:
                yield env
        elif name == 'once':
            e1 = None
            it = self.solve_call(('f', 'call', (args[0],)), env, depth + 1)
            for e1 in it:
                break
            it.close()
            if e1 is not None:
                yield e1
        elif name == 'findall':
            res = []
            for e in self.solve_call(('f', 'call', (args[1],)), env, depth + 1):
                res.append(self.rename(resolve(args[0], e), {}))
            lst = NIL
            for t in reversed(res):
                lst = ('f', '.', (t, lst))
            e = unify_nsto(args[2], lst, env)
            if e is not None:
                yield e
        elif name in ('asserta', 'assertz'):
            t = deref(args[0], env)
            if t[0] not in ('a', 'f'):
                raise Unspecified('assert of non-callable')
            self.assert_fact(t, env, append=(name == 'assertz'))
            yield env
        elif name == 'retract':
            t = deref(args[0], env)
            if t[0] not in ('a', 'f'):
                raise Unspecified('retract of non-callable')
            k2 = (t[1], len(t[2]) if t[0] == 'f' else 0)
            for fid, fact in list(self.db.get(k2, ())):
                self.tick(depth)
                cur = self.db.get(k2, [])
                if not any(f == fid for f, _ in cur):
                    continue
                f2 = self.rename(fact, {})
                e = unify_nsto(t, f2, env)
                if e is not None:
                    self.db[k2] = [(f, x) for f, x in self.db[k2] if f != fid]
                    yield e
        elif name == 'retractall':
            t = deref(args[0], env)
            if t[0] not in ('a', 'f'):
                raise Unspecified('retractall of non-callable')
            k2 = (t[1], len(t[2]) if t[0] == 'f' else 0)
            keep = []
            for fid, fact in self.db.get(k2, ()):
                f2 = self.rename(fact, {})
                if unify_nsto(t, f2, env) is None:
                    keep.append((fid, fact))
            if k2 in self.db or keep:
                self.db[k2] = keep
            yield env
        else:
            raise ValueError(key)

    # ---- queries -----------------------------------------------------------------
    def iter_query(self, goal, obs, env=None):
        """generator of canonical observations of `obs` (a list of terms), one per answer"""
        for e in self.solve_call(goal, env or {}, 0):
            yield canon(obs, e)

    def iter_env(self, goal, env=None):
        return self.solve_call(goal, env or {}, 0)

    def query(self, goal, obs, limit=None, env=None):
        """-> (answers, status) ; status in 'complete' | 'budget' | 'limit'"""
        answers = []
        self.steps = 0
        try:
            for a in self.iter_query(goal, obs, env):
                answers.append(a)
                if limit is not None and len(answers) >= limit:
                    return answers, 'limit'
        except Budget:
            return answers, 'budget'
        except RecursionError:
            return answers, 'budget'
        return answers, 'complete'
