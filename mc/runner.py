"""Runner: tiers, sharding over worker processes, evidence, replay files, known findings.

A check module (mc/checks/cNN.py) provides

    ID, LEVEL ('model_checking'), RULE (str), ASSUMPTIONS (list of str)
    plan(tier)        -> list of shard specs (picklable, small)
    run_shard(spec)   -> Acc
    replay(case)      -> list of (signature, detail) for that single case ([] = passes)

Exit status: 0 property held on everything explored; 1 violation (a line
`VIOLATION property=<ID> replay=<path>` per violation group); 2 the check could not run.
"""
import argparse
import collections
import contextlib
import hashlib
import importlib
import json
import multiprocessing
import os
import re
import signal
import sys
import time
import traceback

VERIF = os.path.dirname(os.path.dirname(os.path.abspath(__file__)))
MAX_KEYS_PER_GROUP = 400


def h64(obj):
    return int.from_bytes(hashlib.blake2b(repr(obj).encode('utf8', 'backslashreplace'),
                                          digest_size=8).digest(), 'big')


class Hang(BaseException):
    pass


@contextlib.contextmanager
def watchdog(seconds=120):
    """backstop against a non-terminating implementation run; generous, so that it never
    fires on a terminating case even on a loaded machine"""
    def handler(signum, frame):
        raise Hang('no result after %d s wall' % seconds)
    old = signal.signal(signal.SIGALRM, handler)
    signal.setitimer(signal.ITIMER_REAL, seconds)
    try:
        yield
    finally:
        signal.setitimer(signal.ITIMER_REAL, 0)
        signal.signal(signal.SIGALRM, old)


def in_child(fn, *args, quiet=False):
    """run fn(*args) in a forked child and return its (picklable) result: whatever the call leaves
    behind in the process - blocked threads, held locks - dies with the child.
    quiet: the child's stderr goes to /dev/null (a dying interpreter dumps thousands of lines)"""
    import pickle
    r, w = os.pipe()
    pid = os.fork()
    if pid == 0:
        code = 0
        try:
            os.close(r)
            if quiet:
                dn = os.open(os.devnull, os.O_WRONLY)
                os.dup2(dn, 2)
            try:
                data = pickle.dumps(('ok', fn(*args)))
            except BaseException:  # noqa: BLE001
                data = pickle.dumps(('error', traceback.format_exc()))
            with os.fdopen(w, 'wb') as f:
                f.write(data)
        except BaseException:  # noqa: BLE001
            code = 3
        finally:
            os._exit(code)
    os.close(w)
    with os.fdopen(r, 'rb') as f:
        data = f.read()
    os.waitpid(pid, 0)
    if not data:
        raise RuntimeError('child process died without a result')
    status, payload = pickle.loads(data)
    if status != 'ok':
        raise RuntimeError('in child process:\n' + payload)
    return payload


class Acc:
    """mergeable accumulator of what a shard covered"""

    def __init__(self):
        self.n = collections.Counter()      # evaluations, transitions, validated, nontrivial, ...
        self.skipped = collections.Counter()
        self.outcomes = set()               # hashes of distinct canonical outcomes / states
        self.groups = {}                    # signature -> dict(count, index, case, detail, keys)
        self.samples = []
        self.info = {}

    def outcome(self, obj):
        self.outcomes.add(h64(obj))

    def sample(self, obj, limit=3):
        if len(self.samples) < limit:
            self.samples.append(obj)

    def violation(self, sig, index, case, detail, key=None):
        g = self.groups.get(sig)
        if key is None:
            key = json.dumps(case, sort_keys=True, default=repr)
        if g is None:
            g = self.groups[sig] = {'count': 0, 'index': index, 'case': case, 'detail': detail,
                                    'keys': []}
        g['count'] += 1
        if len(g['keys']) < MAX_KEYS_PER_GROUP:
            g['keys'].append(key)
        if _lt(index, g['index']):
            g['index'], g['case'], g['detail'] = index, case, detail

    def merge(self, other):
        self.n.update(other.n)
        self.skipped.update(other.skipped)
        self.outcomes |= other.outcomes
        for sig, g in other.groups.items():
            m = self.groups.get(sig)
            if m is None:
                self.groups[sig] = g
            else:
                m['count'] += g['count']
                m['keys'] = (m['keys'] + g['keys'])[:MAX_KEYS_PER_GROUP]
                if _lt(g['index'], m['index']):
                    m['index'], m['case'], m['detail'] = g['index'], g['case'], g['detail']
        for s in other.samples:
            if len(self.samples) < 6:
                self.samples.append(s)
        for k, v in other.info.items():
            if isinstance(v, (int, float)) and isinstance(self.info.get(k), (int, float)):
                self.info[k] = max(self.info[k], v)
            else:
                self.info.setdefault(k, v)


def _lt(a, b):
    try:
        return a < b
    except TypeError:
        return repr(a) < repr(b)


def _run_shard(args):
    modname, spec = args
    mod = importlib.import_module(modname)
    t0 = time.time()
    try:
        acc = mod.run_shard(spec)
        acc.n['shards'] += 1
        return ('ok', acc, time.time() - t0)
    except BaseException as e:  # noqa: BLE001
        return ('error', '%s\n%s' % (repr(spec)[:300], traceback.format_exc()), time.time() - t0)


def load_known():
    p = os.path.join(VERIF, 'known_findings.json')
    if not os.path.exists(p):
        return {'findings': [], 'fixed': []}
    with open(p) as f:
        return json.load(f)


def match_known(known, pid, sig, keys, count):
    """a group is known only if every one of its failing cases is listed"""
    for ent in known.get('findings', []):
        if ent.get('property') != pid or ent.get('signature') != sig:
            continue
        if count > len(keys):
            return None
        listed = set(ent.get('cases', []))
        rx = ent.get('case_regex')
        ok = True
        for k in keys:
            if k in listed:
                continue
            if rx and re.fullmatch(rx, k, re.S):
                continue
            ok = False
            break
        if ok:
            return ent
    return None


def write_evidence(pid, tier, seed, level, coverage, assumptions, wall, nviol):
    d = os.path.join(VERIF, 'evidence')
    if os.path.realpath(os.environ.get('VERIF_REPO', '/repo')) != '/repo':
        # a scratch copy of the repository is being examined (tools/trymut.py): its runs
        # are not evidence about /repo
        d = '/tmp/verif-scratch-evidence'
    os.makedirs(d, exist_ok=True)
    ev = {
        'property_id': pid, 'tier': tier, 'seed': seed, 'level': level,
        'coverage': coverage, 'assumptions': assumptions,
        'wall_s': round(wall, 2), 'violations': nviol,
    }
    tmp = os.path.join(d, '.%s.json.tmp' % pid)
    with open(tmp, 'w') as f:
        json.dump(ev, f, indent=1, sort_keys=True, default=repr)
        f.write('\n')
    os.replace(tmp, os.path.join(d, '%s.json' % pid))


def main(argv=None):
    ap = argparse.ArgumentParser(prog='check')
    ap.add_argument('id')
    ap.add_argument('--tier', default='quick', choices=['quick', 'thorough'])
    ap.add_argument('--replay')
    ap.add_argument('--workers', type=int, default=int(os.environ.get('VERIF_WORKERS', '0')) or None)
    ap.add_argument('--max-shards', type=int, default=None, help='debug: run only the first N shards')
    a = ap.parse_args(argv)
    tier = os.environ.get('VERIF_TIER') or a.tier
    if tier not in ('quick', 'thorough'):
        tier = a.tier
    try:
        seed = int(os.environ.get('VERIF_SEED', '0'))
    except ValueError:
        seed = 0
    pid = a.id.upper()
    modname = 'mc.checks.%s' % pid.lower()
    os.environ.setdefault('PYTHONHASHSEED', '0')
    try:
        mod = importlib.import_module(modname)
    except Exception:  # noqa: BLE001
        print('ERROR property=%s cannot import the check or the implementation' % pid)
        traceback.print_exc()
        return 2

    if a.replay:
        with open(a.replay) as f:
            rp = json.load(f)
        try:
            res = mod.replay(rp['case'])
        except Exception:  # noqa: BLE001
            print('ERROR property=%s replay failed to run' % pid)
            traceback.print_exc()
            return 2
        if res:
            for sig, detail in res:
                print('REPLAY-FAILS property=%s signature=%s' % (pid, sig))
                print(_indent(detail))
            print('VIOLATION property=%s replay=%s' % (pid, os.path.abspath(a.replay)))
            return 1
        print('REPLAY-PASSES property=%s %s' % (pid, a.replay))
        return 0

    t0 = time.time()
    try:
        shards = list(mod.plan(tier))
    except Exception:  # noqa: BLE001
        print('ERROR property=%s planning failed' % pid)
        traceback.print_exc()
        return 2
    if a.max_shards:
        shards = shards[:a.max_shards]
    # the seed only rotates the order in which shards are handed out
    if shards:
        r = seed % len(shards)
        shards = shards[r:] + shards[:r]
    total = Acc()
    errors = []
    nworkers = a.workers or min(os.cpu_count() or 1, 16)
    nworkers = max(1, min(nworkers, len(shards) or 1))
    jobs = [(modname, s) for s in shards]
    if nworkers == 1:
        results = map(_run_shard, jobs)
        pool = None
    else:
        ctx = multiprocessing.get_context('fork')
        pool = ctx.Pool(nworkers)
        results = pool.imap_unordered(_run_shard, jobs, chunksize=1)
    try:
        for status, payload, dt in results:
            if status == 'ok':
                total.merge(payload)
            else:
                errors.append(payload)
    finally:
        if pool is not None:
            pool.close()
            pool.join()
    wall = time.time() - t0

    if errors:
        print('ERROR property=%s %d shard(s) could not run; first:' % (pid, len(errors)))
        print(_indent(errors[0]))
        return 2

    known = load_known()
    new_groups = []
    known_groups = []
    for sig in sorted(total.groups):
        g = total.groups[sig]
        ent = match_known(known, pid, sig, g['keys'], g['count'])
        if ent is not None:
            known_groups.append((sig, g, ent))
        else:
            new_groups.append((sig, g))

    rdir = os.path.join(VERIF, 'replays', pid)
    replay_paths = []
    if new_groups:
        os.makedirs(rdir, exist_ok=True)
        for old in os.listdir(rdir):
            if old.endswith('.json'):
                os.unlink(os.path.join(rdir, old))
    for i, (sig, g) in enumerate(new_groups):
        path = os.path.join(rdir, '%d.json' % i)
        with open(path, 'w') as f:
            json.dump({'property': pid, 'signature': sig, 'tier': tier, 'count': g['count'],
                       'case': g['case'], 'detail': g['detail']}, f, indent=1, default=repr)
            f.write('\n')
        replay_paths.append(path)

    exhaustive = bool(getattr(mod, 'EXHAUSTIVE', True)) and not total.n.get('capped', 0)
    cov = {
        'evaluations': int(total.n.get('evaluations', 0)),
        'distinct_nontrivial': int(total.n.get('nontrivial', 0)),
        'states': len(total.outcomes),
        'transitions': int(total.n.get('transitions', 0)),
        'traces_validated_against_impl': int(total.n.get('validated', 0)),
        'rule': getattr(mod, 'RULE', ''),
        'samples': total.samples[:6] or ['(no sample recorded)'],
        'exhaustive': exhaustive,
        'bounds': mod.bounds(tier) if hasattr(mod, 'bounds') else {},
        'skipped_out_of_scope': dict(total.skipped),
        'counters': {k: int(v) for k, v in sorted(total.n.items())},
        'shards': len(shards),
        'workers': nworkers,
        'violation_groups': [{'signature': s, 'cases': g['count']} for s, g in new_groups],
        'known_findings_seen': [{'signature': s, 'cases': g['count']} for s, g, _ in known_groups],
    }
    cov.update(total.info)
    write_evidence(pid, tier, seed, getattr(mod, 'LEVEL', 'model_checking'), cov,
                   list(getattr(mod, 'ASSUMPTIONS', [])), wall, sum(g['count'] for _, g in new_groups))

    print('%s tier=%s seed=%d: %d cases (%d non-trivial), %d distinct outcomes, %d engine steps, '
          '%d compared with the implementation, skipped %s, %.1fs on %d workers'
          % (pid, tier, seed, cov['evaluations'], cov['distinct_nontrivial'], cov['states'],
             cov['transitions'], cov['traces_validated_against_impl'], dict(total.skipped) or '{}',
             wall, nworkers))
    for sig, g, ent in known_groups:
        print('KNOWN-FINDING: property=%s %s (%d case(s); %s)' % (pid, ent.get('what', sig), g['count'], sig))
    for (sig, g), path in zip(new_groups, replay_paths):
        print('--- %s: %d case(s); smallest:' % (sig, g['count']))
        print(_indent(g['detail']))
        print('VIOLATION property=%s replay=%s' % (pid, path))
    if cov['evaluations'] == 0:
        print('ERROR property=%s nothing was explored' % pid)
        return 2
    return 1 if new_groups else 0


def _indent(s):
    return '\n'.join('    ' + ln for ln in str(s).splitlines())


def chunks(n_items, n_chunks):
    """[(k, n_chunks)] residue-class shards"""
    return [(k, n_chunks) for k in range(n_chunks)]
