"""Structural oracle on the compiler's output (C11, C12): what the generated Python may contain.

The rules constrain names and provenance, not the shape of the control flow, so a refactoring
of the emitted loops stays silent:
  * the module body consists of function definitions only
  * no Attribute, Import, ImportFrom, Lambda, Global, Nonlocal, ClassDef, async construct,
    nested function, decorator or default argument anywhere
  * every name that a function reads is either assigned in that function (argument, loop
    variable, assignment) or one of the engine's API names
  * no function assigns to an API name (capture)
"""
import ast

API = {'variable', 'atom', 'functor', 'functor1', 'functor2', 'functor3', 'listpair', 'makelist', 'ATOM_NIL',
       'unify', 'match_dynamic', 'query', 'True', 'False'}
FORBIDDEN = (ast.Attribute, ast.Import, ast.ImportFrom, ast.Lambda, ast.Global, ast.Nonlocal, ast.ClassDef,
             ast.AsyncFunctionDef, ast.AsyncFor, ast.AsyncWith, ast.Await)


def check_module(pytext):
    """-> list of (rule, message); empty = fine.  Raises SyntaxError if pytext is not Python."""
    tree = ast.parse(pytext)
    problems = []
    for node in tree.body:
        if not isinstance(node, ast.FunctionDef):
            problems.append(('module-level-statement', 'module level contains %s (line %d): only function definitions are allowed'
                             % (type(node).__name__, getattr(node, 'lineno', 0))))
    for fn in [n for n in tree.body if isinstance(n, ast.FunctionDef)]:
        problems += check_function(fn)
    return problems


def check_function(fn):
    problems = []
    if fn.decorator_list:
        problems.append(('decorator', '%s has a decorator' % fn.name))
    a = fn.args
    if a.defaults or a.kw_defaults or a.kwonlyargs or a.vararg or a.kwarg or a.posonlyargs:
        problems.append(('argument-defaults', '%s has default / special arguments' % fn.name))
    assigned = set(x.arg for x in a.args)
    loads = []
    for node in ast.walk(fn):
        if node is fn:
            continue
        if isinstance(node, FORBIDDEN):
            problems.append(('forbidden-node', '%s contains %s (line %d)' % (fn.name, type(node).__name__, getattr(node, 'lineno', 0))))
        if isinstance(node, ast.FunctionDef):
            problems.append(('nested-function', '%s contains a nested function %s' % (fn.name, node.name)))
        if isinstance(node, ast.Name):
            if isinstance(node.ctx, (ast.Store, ast.Del)):
                assigned.add(node.id)
                if node.id in API:
                    problems.append(('api-name-captured', '%s assigns to the engine name %s (line %d)' % (fn.name, node.id, node.lineno)))
            else:
                loads.append(node)
        if isinstance(node, ast.arg) and node.arg in API:
            problems.append(('api-name-captured', '%s has a parameter named %s' % (fn.name, node.arg)))
    for node in loads:
        if node.id not in assigned and node.id not in API:
            problems.append(('foreign-name', '%s reads the name %s (line %d), which is neither local nor part of the engine API'
                             % (fn.name, node.id, node.lineno)))
    return problems


def provenance(pytext, marker):
    """where does `marker` occur in the AST?  -> list of (kind, detail) for occurrences that
    are not a string/int constant, a local variable name or a function name"""
    tree = ast.parse(pytext)
    bad = []
    fnames = set()
    for node in ast.walk(tree):
        if isinstance(node, ast.FunctionDef):
            fnames.add(node.name)
            if marker in node.name and not node.name.isidentifier():
                bad.append(('function-name-not-identifier', node.name))
    for fn in [n for n in tree.body if isinstance(n, ast.FunctionDef)]:
        assigned = set(x.arg for x in fn.args.args)
        for node in ast.walk(fn):
            if isinstance(node, ast.Name) and isinstance(node.ctx, ast.Store):
                assigned.add(node.id)
        for node in ast.walk(fn):
            if isinstance(node, ast.Name) and marker in node.id and node.id not in assigned:
                bad.append(('non-local-name', node.id))
            for field in ('attr', 'module'):
                v = getattr(node, field, None)
                if isinstance(v, str) and marker in v:
                    bad.append((type(node).__name__ + '.' + field, v))
            if isinstance(node, ast.alias) and marker in (node.name or ''):
                bad.append(('import-alias', node.name))
            if isinstance(node, ast.keyword) and node.arg and marker in node.arg:
                bad.append(('keyword', node.arg))
    for node in tree.body:
        if not isinstance(node, ast.FunctionDef):
            src = ast.dump(node)
            if marker in src:
                bad.append(('module-level', type(node).__name__))
    return bad
