"""Bounded exhaustive exploration (model checking) harness for timhemel/yldprolog.

See /verif/DESIGN.md.  Everything in this package is plain Python and runs under
/venv/bin/python against the working tree in /repo/src.
"""
