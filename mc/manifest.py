"""Regenerates /verif/MANIFEST.json from the check modules (python -m mc.manifest)."""
import importlib
import json
import os
import sys

VERIF = os.path.dirname(os.path.dirname(os.path.abspath(__file__)))
ALL = ['C%02d' % i for i in range(1, 21)]


def main():
    sys.path.insert(0, VERIF)
    checks = []
    na = []
    for pid in ALL:
        path = os.path.join(VERIF, 'mc', 'checks', pid.lower() + '.py')
        if not os.path.exists(path):
            na.append({'property_id': pid, 'reason': 'no check registered yet (work in progress; see DESIGN.md section 3 for the planned bounded exploration)'})
            continue
        mod = importlib.import_module('mc.checks.' + pid.lower())
        checks.append({
            'property_id': pid,
            'quick_cmd': './check %s --tier quick' % pid,
            'thorough_cmd': './check %s --tier thorough' % pid,
            'evidence_file': 'evidence/%s.json' % pid,
            'replay_cmd_template': './check %s --replay {path}' % pid,
            'engine': 'mc',
            'level_claimed': {
                'category': mod.LEVEL,
                'text': getattr(mod, 'LEVEL_TEXT', mod.RULE),
                'design_ref': 'DESIGN.md section 3, ' + pid,
            },
            'level_note': '; '.join(mod.ASSUMPTIONS),
            'technique': getattr(mod, 'TECHNIQUE', 'bounded exhaustive enumeration on the real code against a reference model (hand-written explicit-state explorer)'),
        })
    man = {
        'version': 1,
        'setup_cmd': '/venv/bin/python -m mc.selftest',
        'hooks': {
            'guard': 'YLDPROLOG_VERIF',
            'enable': 'checks set YLDPROLOG_VERIF=1 in their own process before importing yldprolog from /repo/src (pure Python, nothing to build)',
            'baseline_off_cmd': 'cd /repo && env -u YLDPROLOG_VERIF /venv/bin/python -m pytest -ra -q -p no:cacheprovider --timeout=900 --continue-on-collection-errors',
            'source_commits': HOOK_COMMITS,
            'add_only': True,
        },
        'engines': [{
            'name': 'mc', 'path': 'mc/',
            'serves_properties': [c['property_id'] for c in checks],
            'kind_free_text': 'hand-written bounded exhaustive explorers in Python (input enumerator, history explorer, abandonment/fault enumerator, schedule explorer, environment enumerator) driving the real yldprolog code, with reference models in mc/refprolog.py, mc/refgrammar.py',
        }],
        'checks': checks,
        'not_applicable': na,
        'notes': 'See DESIGN.md. ./check <ID> --tier quick|thorough ; VERIF_TIER and VERIF_SEED are honoured; known findings in known_findings.json.',
    }
    with open(os.path.join(VERIF, 'MANIFEST.json'), 'w') as f:
        json.dump(man, f, indent=1)
        f.write('\n')
    print('MANIFEST.json: %d checks, %d not_applicable' % (len(checks), len(na)))


HOOK_COMMITS = ['55f8412']

if __name__ == '__main__':
    main()
