"""C02 - unification computes a most general unifier, or fails."""
import itertools

from .. import impl
from ..diff import _j, _t, show_obs
from ..refprolog import unify_nsto as ref_unify, canon, Cyclic
from ..runner import Acc
from ..terms import A, C, F, V, L, NIL, term_size, pp as show_term

ID = 'C02'
LEVEL = 'model_checking'
RULE = ('(c) every term of the universe and a copy of it (copy.deepcopy, copy.copy, pickle round trip; also made under an active binding) unify exactly once in both orders, denote the same term afterwards and leave nothing bound; (l) every ordered pair of a 56-term universe with wide (3, 5, 8 arguments), nested, deep (6 levels) and flat-but-growing terms (values that become deep through the bindings the unification itself makes, under one and two wrappers) under every second recursion limit from the caller\'s depth + 6 to + 98: the unification raises RecursionError or has exactly the reference outcome; (r) one engine and the same three variables through ALL ordered pairs of a 33-term universe in 8 (thorough 32) rotations, each unification run to the end and closed - also the cyclic ones, whose outcome is not judged - nothing may be left behind and every result must be the reference result; (p) every ordered pair (t1,t2) of the term universe (quick: all terms of depth <=1 over variables X,Y,Z, '
        'atoms a,b,[], Python constants 1, 1000003, \'str\' (passed as equal but distinct objects) and None, 0, the empty string, -1, -2, 2**61-1 (pairs with colliding Python hashes) (at top level and as arguments of f/1, f/2), two-cell list-shaped terms whose cells are named . or f, wide compounds f/10 f/11 f/12 p/21 next to f1/0 f1/2 p2/1, functors f/0 a/0 (compound terms without arguments, distinct from the atoms) f/1 f/2 g/1 ./2; thorough: additionally all terms of depth <=2 with <=4 symbols under the 6 menu stacks) '
        'x every stack of earlier, still suspended unifications from the menu (quick: 6 stacks; thorough: the depth<=1 universe under every '
        'stack of <=2 equations out of 8 that is consistent and acyclic) x every point of the stack at which the unify generator is CREATED (it is always advanced under the whole stack). For each: number of yields, canonical '
        'observation of (X,Y,Z,t1,t2) at the yield vs Robinson unification (mgu up to renaming incl. aliasing), both '
        'terms observe equal, the two term objects unify as written once the stack they were built under is closed; list cells built with listpair on one side and with functor on the other (empty stack); bindings restored after exhaustion (the exhausted iterator is then also closed, twice) and after close(). states = distinct '
        '(stack, outcome) observations; transitions = next()/close() calls on real unify generators; non-trivial = '
        'the terms unify and bind at least one variable')
ASSUMPTIONS = ['pairs whose unification would need a cyclic term are unspecified and skipped (counted)',
               'booleans/floats are not in the alphabet (1 == True == 1.0 in Python)',
               'terms deeper than the bound are not covered']
X, Y, Z = V('X'), V('Y'), V('Z')
a, b = A('a'), A('b')


def bounds(tier):
    return {'universe': 'depth<=1 (%d terms)' % len(universe('quick')) if tier == 'quick' else 'depth<=2, <=4 symbols (%d terms) x 6 stacks; depth<=1 x %d stacks' % (len(universe('thorough')), len(stacks('thorough'))),
            'stacks': len(stacks(tier))}


def universe(tier):
    base = [X, Y, Z, a, b, NIL, C(1), C('str'), C(1000003), F('f'), F('a')]
    d1 = list(base)
    d1 += [F('f', t) for t in base]
    d1 += [F('f', t, u) for t in base for u in base]
    d1 += [F('g', t) for t in base]
    d1 += [F('.', t, u) for t in base for u in base]
    core = list(d1)     # what the depth-2 universe of the thorough tier is built from
    # Python constants that are false in a boolean context or are None: a value that an implementation
    # might confuse with "no value"
    # ... and numbers whose Python hashes collide although they differ (hash(-1) == hash(-2), and
    # integers are hashed modulo 2**61-1): equal hashes are not equal terms
    falsy = [C(None), C(0), C(''), C(-1), C(-2), C(2 ** 61 - 1)]
    d1 += falsy + [F('f', t) for t in falsy] + [F('f', X, t) for t in falsy]
    # list-shaped terms two cells long whose cells are real list cells or other two-argument
    # compounds (a walk along a list must compare the name of EVERY cell)
    for n1 in ('.', 'f'):
        for n2 in ('.', 'f'):
            for h1 in (a, X):
                for h2 in (b, Y):
                    for t in (NIL, Z):
                        d1.append(F(n1, h1, F(n2, h2, t)))
    # names that end in digits next to the same stem at arities >= 10 (f1/2 and f/12, f1/0 and f/10,
    # p2/1 and p/21): name and number of arguments are two things
    wide = lambda n: [a, X] + [b] * (n - 2)  # noqa: E731
    d1 += [F('f1', a, X), F('f', *wide(12)), F('f1'), F('f', *wide(10)), F('p2', X), F('p', *wide(21)), F('f', *wide(11))]
    if tier == 'quick':
        return d1
    d2 = list(d1)
    seen = set(d1)
    for t in core:
        for cand in (F('f', t), F('g', t)):
            if cand not in seen and term_size(cand) <= 4:
                seen.add(cand)
                d2.append(cand)
    for name in ('f', '.'):
        for t in core:
            for u in core:
                cand = F(name, t, u)
                if cand not in seen and term_size(cand) <= 4:
                    seen.add(cand)
                    d2.append(cand)
    return d2


MENU = [[], [(X, Y)], [(Y, a)], [(X, F('f', Z))], [(X, Y), (Y, Z)], [(Z, X), (X, F('g', Y))]]
EQS = [(X, Y), (Y, a), (X, F('f', Z)), (Y, Z), (Z, X), (X, F('g', Y)), (Z, b), (Y, F('f', X, NIL))]


def stacks(tier):
    if tier == 'quick':
        return MENU
    out = [[]] + [[e] for e in EQS] + [[e1, e2] for e1 in EQS for e2 in EQS if e1 != e2]
    good = []
    for st in out:
        env = {}
        try:
            for l, r in st:
                env = ref_unify(l, r, env)
                if env is None:
                    break
        except Cyclic:
            continue
        if env is not None:
            good.append(st)
    return good


def plan(tier):
    if tier == 'quick':
        return [('quick', 'quick', k, 16) for k in range(16)] + [('reuse', k, 8) for k in range(8)] + [('limits', k, 16) for k in range(16)] + [('copies',)]
    # thorough = (depth<=2 universe x the 6 menu stacks) + (depth<=1 universe x all stacks of <=2 equations)
    return [('thorough', 'quick', k, 256) for k in range(256)] + [('quick', 'thorough', k, 64) for k in range(64)] + [('reuse', k, 32) for k in range(32)] + [('limits', k, 16) for k in range(16)] + [('copies',)]


def has_dot(t):
    return t[0] == 'f' and ((t[1] == '.' and len(t[2]) == 2) or any(has_dot(x) for x in t[2]))


def check_pair(stack, t1, t2, create_at=None, dots2='listpair'):
    """-> ('skip', reason) | ('ok', outcome, steps, nontrivial) | ('violation', sig, detail)
    create_at: the unify generator for (t1,t2) is CREATED after the first create_at equations of
    the stack are active, the rest of the stack is established afterwards, and only then is the
    generator advanced - the unification starts under the whole stack (a generator that has not
    been advanced has not started), so the expected outcome is the same"""
    if create_at is None:
        create_at = len(stack)
    env0 = {}
    for l, r in stack:
        env0 = ref_unify(l, r, env0)
    try:
        env1 = ref_unify(t1, t2, env0)
    except Cyclic:
        return ('skip', 'cyclic')
    yp = impl.YP()
    vm = {}
    vx, vy, vz = (impl.to_engine(yp, v, vm) for v in (X, Y, Z))
    held = []
    steps = 0
    early = None
    e1 = e2 = None
    for si, (l, r) in enumerate(stack):
        if si == create_at:
            e1, e2 = impl.to_engine(yp, t1, vm), impl.to_engine(yp, t2, vm, dots2)
            early = iter(impl.engine.unify(e1, e2))
        g = iter(impl.engine.unify(impl.to_engine(yp, l, vm), impl.to_engine(yp, r, vm)))
        try:
            next(g)
        except StopIteration:
            return ('violation', 'stack-equation-fails', 'establishing %s = %s failed' % (show_term(l), show_term(r)))
        held.append(g)
        steps += 1
    pre = impl.observe([vx, vy, vz])
    if pre != canon([X, Y, Z], env0):
        return ('violation', 'stack-observation', 'after the stack: %s, expected %s' % (show_obs(pre), show_obs(canon([X, Y, Z], env0))))
    if early is None:
        e1, e2 = impl.to_engine(yp, t1, vm), impl.to_engine(yp, t2, vm, dots2)
    exp = None if env1 is None else canon([X, Y, Z, t1, t2], env1)

    def fail(sig, msg):
        if early is not None:
            sig = 'created-early:' + sig
        return ('violation', sig, 'stack %s; unify(%s, %s)%s: %s' % (
            ', '.join('%s = %s' % (show_term(l), show_term(r)) for l, r in stack) or '(empty)',
            show_term(t1), show_term(t2),
            '' if early is None else ' [generator created when only the first %d stack equation(s) were active, advanced under the whole stack]' % create_at, msg))
    # run 1: to exhaustion
    try:
        g = early if early is not None else iter(impl.engine.unify(e1, e2))
        n = 0
        got = None
        for _ in g:
            n += 1
            steps += 1
            if n == 1:
                got = impl.observe([vx, vy, vz, e1, e2])
            if n > 1:
                break
        steps += 1
        # closing an iterator that is already exhausted is harmless (contextlib.closing, evaluate_bounded)
        c = getattr(g, 'close', None)
        if c is not None:
            c()
            c()
    except Exception as e:  # noqa: BLE001
        return fail('raises:' + impl.exc_sig(e), 'raised %r' % (e,))
    if n > 1:
        return fail('yields-twice', 'yielded more than once')
    if exp is None and n == 1:
        return fail('unifies-but-should-fail', 'yielded with %s; the terms are not unifiable' % show_obs(got))
    if exp is not None and n == 0:
        return fail('fails-but-should-unify', 'did not yield; expected %s' % show_obs(exp))
    if exp is not None:
        if got != exp:
            return fail('not-the-mgu', 'at the yield (X,Y,Z,t1,t2) = %s, expected %s' % (show_obs(got), show_obs(exp)))
        if got[3] != got[4]:
            return fail('terms-differ-at-yield', 't1 and t2 dereference to different terms: %s' % show_obs(got))
    post = impl.observe([vx, vy, vz])
    if post != pre:
        return fail('bindings-left-after-exhaustion', '(X,Y,Z) = %s afterwards, was %s before' % (show_obs(post), show_obs(pre)))
    # run 2: close after the first answer
    if exp is not None:
        g = iter(impl.engine.unify(e1, e2))
        try:
            next(g)
            got2 = impl.observe([vx, vy, vz, e1, e2])
            g.close()
            steps += 2
        except StopIteration:
            return fail('second-run-fails', 'the same unification failed when repeated')
        except Exception as e:  # noqa: BLE001
            return fail('raises:' + impl.exc_sig(e), 'raised %r' % (e,))
        if got2 != exp:
            return fail('second-run-differs', 'second run: %s, expected %s' % (show_obs(got2), show_obs(exp)))
        post = impl.observe([vx, vy, vz])
        if post != pre:
            return fail('bindings-left-after-close', '(X,Y,Z) = %s after close(), was %s before' % (show_obs(post), show_obs(pre)))
    for g in reversed(held):
        g.close()
    fin = impl.observe([vx, vy, vz])
    if fin != canon([X, Y, Z], {}):
        return fail('bindings-left-after-stack', '(X,Y,Z) = %s after closing the stack' % show_obs(fin))
    if stack:
        # the two term objects were BUILT while the stack's bindings were active; now that these are
        # undone, the same objects denote the terms as written and unify accordingly
        try:
            env_e = ref_unify(t1, t2, {})
        except Cyclic:
            env_e = 'skip'
        if env_e != 'skip':
            exp_e = None if env_e is None else canon([X, Y, Z, t1, t2], env_e)
            got_e = None
            for _ in impl.engine.unify(e1, e2):
                got_e = impl.observe([vx, vy, vz, e1, e2])
                break
            steps += 1
            if got_e != exp_e:
                return fail('terms-built-under-bindings-keep-them', 'after the stack was closed, unify of the same two term objects gives %s, expected %s'
                            % (show_obs(got_e) if got_e else 'no answer', show_obs(exp_e) if exp_e else 'no answer'))
    nontrivial = exp is not None and exp[:3] != pre
    return ('ok', exp, steps, nontrivial)


# ---- the same variable objects through a whole sequence of unifications ---------------------------
# One engine, one X, Y, Z for ALL ordered pairs of a small universe, one pair after the other: every
# unification is run to exhaustion and closed - also the ones that would need a cyclic term, whose
# OUTCOME is unspecified but which, once over, must leave nothing behind - and the next pair must
# behave as if the variables were new.
def reuse_universe():
    base = [X, Y, a, C(1)]
    return base + [F('f', t) for t in base] + [F('g', t, u) for t in base for u in base] + [F('.', X, Y), F('.', a, X), NIL]


def run_reuse(k, n, acc):
    import sys
    U = reuse_universe()
    yp = impl.YP()
    vm = {}
    vx, vy, vz = (impl.to_engine(yp, v, vm) for v in (X, Y, Z))
    fresh = canon([X, Y, Z], {})
    # the order of the pairs is rotated per shard, so that every pair is preceded by different ones
    pairs = [(t1, t2) for t1 in U for t2 in U]
    r = (k * 37) % len(pairs)
    pairs = pairs[r:] + pairs[:r]
    trail = []
    for t1, t2 in pairs:
        acc.n['evaluations'] += 1
        try:
            env = ref_unify(t1, t2, {})
            cyclic = False
        except Cyclic:
            env, cyclic = None, True
        e1, e2 = impl.to_engine(yp, t1, vm), impl.to_engine(yp, t2, vm)
        got = None
        nans = 0
        try:
            g = iter(impl.engine.unify(e1, e2))
            for _ in g:
                nans += 1
                if not cyclic:
                    got = impl.observe([vx, vy, vz, e1, e2])
                if nans > 1:
                    break
            c = getattr(g, 'close', None)
            if c is not None:
                c()
        except RecursionError:
            if not cyclic:
                raise
        g = None
        trail.append('%s = %s%s' % (show_term(t1), show_term(t2), ' [cyclic, outcome not judged]' if cyclic else ''))
        after = impl.observe([vx, vy, vz])
        label = 'one engine, the same X, Y, Z throughout; unifications so far (each run to the end and closed): ...%s\n' % ' ; '.join(trail[-6:])
        if after != fresh:
            acc.n['validated'] += 1
            acc.violation('reuse:bindings-left', (9, k, len(trail)), {'reuse': [k, len(trail)]}, label + 'afterwards (X,Y,Z) = %s' % show_obs(after), key='reuse|%d|%d' % (k, len(trail)))
            return
        if cyclic:
            acc.skipped['cyclic'] += 1
            continue
        acc.n['validated'] += 1
        exp = None if env is None else canon([X, Y, Z, t1, t2], env)
        if nans > 1 or got != exp:
            acc.violation('reuse:result-depends-on-earlier-unifications', (9, k, len(trail)), {'reuse': [k, len(trail)]},
                          label + 'the last one gives %s (answers: %d), expected %s' % (show_obs(got) if got else 'no answer', nans, show_obs(exp) if exp else 'no answer'),
                          key='reuse|%d|%d' % (k, len(trail)))
            return
        acc.n['transitions'] += 2
        acc.outcome(('reuse', exp))


# ---- unification under every tight recursion limit -------------------------------------------------
# A unification either finishes with the right outcome or raises RecursionError - it never turns a stack
# overflow somewhere inside into "the terms do not unify" (or into a partial unifier).  Every ordered pair
# of a universe with wide and nested terms, under every limit from just above the caller's depth.
def limit_universe():
    base = [X, Y, a, b]
    g2 = lambda t: F('g', F('g', t))  # noqa: E731
    out = base + [F('f', t, u) for t in base for u in base] + [g2(t) for t in base] + [F('f', g2(X), g2(a)), F('f', g2(a), g2(Y)), F('f', X, g2(X))]
    out += [F('w', *([X, Y, a, b, X, Y, a, b][:n])) for n in (3, 5, 8)] + [F('w', *([a, a, a, b, b, b, a, b][:n])) for n in (3, 5, 8)]
    out += [L([a, b, X]), L([a, b, a]), L([X, Y], Z)]
    # DEEP terms: looking up a nested value needs more stack than the control flow around it, so a
    # RecursionError from the lookup arrives in frames that still have room to go on (and must not)
    def gn(t, k):
        for _ in range(k):
            t = F('g', t)
        return t
    out += [gn(X, 6), gn(a, 6), gn(b, 6), F('w', gn(X, 6)), F('w', gn(a, 6)), F('f', X, gn(Y, 5)), F('f', gn(a, 5), gn(a, 5)), F('f', gn(a, 5), X),
            F('w', X, Y, X), F('w', gn(Y, 4), gn(a, 4), gn(gn(a, 4), 4)),
            # ... and terms that are FLAT when the call is made but whose values grow deep through the
            # bindings the unification itself makes (X = g(g(Y)), Y = g(g(Z)), Z = g(g(a))): the deep
            # lookup then happens in the middle of the argument lists, under a wrapper
            F('w', F('f', X, Y, Z, X)), F('w', F('f', gn(Y, 2), gn(Z, 2), gn(a, 2), gn(a, 6))), F('w', F('f', gn(Y, 2), gn(Z, 2), gn(a, 2), X)),
            F('w', F('f', gn(Y, 2), gn(Z, 2), gn(a, 2), gn(b, 6))), F('w', F('w', F('f', X, Y, Z, X))), F('w', F('w', F('f', gn(Y, 2), gn(Z, 2), gn(a, 2), X)))]
    return out


def run_limits(k, n, acc):
    import sys
    U = limit_universe()
    depth = 0
    f = sys._getframe()
    while f is not None:
        depth += 1
        f = f.f_back
    old = sys.getrecursionlimit()
    for i1, t1 in enumerate(U):
        if i1 % n != k:
            continue
        for t2 in U:
            try:
                env = ref_unify(t1, t2, {})
            except Cyclic:
                continue
            exp = None if env is None else canon([X, Y, Z, t1, t2], env)
            for lim in range(depth + 6, depth + 100, 2):
                acc.n['evaluations'] += 1
                acc.n['validated'] += 1
                yp = impl.YP()
                vm = {}
                vx, vy, vz = (impl.to_engine(yp, v, vm) for v in (X, Y, Z))
                e1, e2 = impl.to_engine(yp, t1, vm), impl.to_engine(yp, t2, vm)
                got = 'none'
                raised = False
                g = None
                try:
                    sys.setrecursionlimit(lim)
                    g = iter(impl.engine.unify(e1, e2))
                    for _ in g:
                        sys.setrecursionlimit(old)
                        got = impl.observe([vx, vy, vz, e1, e2])
                        break
                except RecursionError:
                    raised = True
                finally:
                    sys.setrecursionlimit(old)
                if g is not None and hasattr(g, 'close'):
                    g.close()
                acc.n['transitions'] += 1
                if raised:
                    acc.outcome(('limit', 'raised'))
                    continue
                got = None if got == 'none' else got
                if got != exp:
                    acc.violation('limits:wrong-outcome-instead-of-recursion-error', (8, i1, lim), {'limits': [_j(t1), _j(t2), lim - depth]},
                                  'unify(%s, %s) under recursion limit %d (caller depth %d) did not raise and gives %s, expected %s'
                                  % (show_term(t1), show_term(t2), lim, depth, show_obs(got) if got else 'no answer', show_obs(exp) if exp else 'no answer'),
                                  key='limits|%s|%s|%d' % (show_term(t1), show_term(t2), lim - depth))
                    break
                acc.n['nontrivial'] += 1
                acc.outcome(('limit', exp))


# ---- copies of terms --------------------------------------------------------------------------------
# A copy of a term made with the standard copy module (or sent through pickle) is a term of its own:
# its variables are other variables.  A term and its copy are variants of each other, so they unify
# (once), afterwards both denote the same term, and when the unification is undone all variables of
# both are unbound again.  Also under bindings that are active when the copy is made.
def copy_modes():
    import copy
    import pickle
    return [('copy.deepcopy', copy.deepcopy), ('copy.copy', copy.copy), ('pickle', lambda t: pickle.loads(pickle.dumps(t)))]


def check_copy(t, mode, fn, order, pre):
    yp = impl.YP()
    vm = {}
    vs = [impl.to_engine(yp, v, vm) for v in (X, Y, Z)]
    e = impl.to_engine(yp, t, vm)
    held = None
    if pre:
        held = iter(impl.engine.unify(vs[1], yp.atom('b')))     # Y = b is active when the copy is made
        next(held)
    try:
        c = fn(e)
    except Exception:  # noqa: BLE001 - a term that cannot be copied that way is no case
        if held:
            held.close()
        return ('skip', 'not copyable')
    if c is e:
        if held:
            held.close()
        return ('skip', 'the copy is the same object')
    before = impl.observe(vs + [e])
    g = iter(impl.engine.unify(e, c) if order == 0 else impl.engine.unify(c, e))
    n = 0
    same = None
    for _ in g:
        n += 1
        both = impl.observe([e, c])      # observed TOGETHER: the same variables get the same numbers
        same = (both[0], both[1])
        if n > 1:
            break
    if hasattr(g, 'close'):
        g.close()
    after = impl.observe(vs + [e])
    if held:
        held.close()
    what = '%s of %s%s, unify(%s)' % (mode, show_term(t), ' made while Y = b' if pre else '', 'term, copy' if order == 0 else 'copy, term')
    if n != 1:
        return ('violation', 'copies:term-and-its-copy-do-not-unify-once', '%s: %d answers (a term and a copy of it are variants: exactly one)' % (what, n))
    if same[0] != same[1]:
        return ('violation', 'copies:not-the-same-term-after-unification', '%s: afterwards the term is %r and the copy is %r' % (what, same[0], same[1]))
    if after != before:
        return ('violation', 'copies:bindings-left-behind', '%s: after the unification was undone (X,Y,Z,term) read %s, before %s' % (what, show_obs(after), show_obs(before)))
    return ('ok', mode)


def run_copies(acc):
    U = [t for t in universe('quick')]
    for ti, t in enumerate(U):
        for mode, fn in copy_modes():
            for order in (0, 1):
                for pre in (False, True):
                    acc.n['evaluations'] += 1
                    r = check_copy(t, mode, fn, order, pre)
                    if r[0] == 'skip':
                        acc.skipped[r[1]] += 1
                        continue
                    acc.n['validated'] += 1
                    acc.n['transitions'] += 2
                    if r[0] == 'violation':
                        acc.violation(r[1], (9, ti, order), {'copy': [_j(t), mode, order, pre]}, r[2], key='copy|%s|%s|%d|%s' % (show_term(t), mode, order, pre))
                        continue
                    acc.n['nontrivial'] += 1
                    acc.outcome(('copy', mode))


def run_shard(spec):
    if spec[0] == 'copies':
        acc = Acc()
        run_copies(acc)
        return acc
    if spec[0] == 'limits':
        acc = Acc()
        run_limits(spec[1], spec[2], acc)
        return acc
    if spec[0] == 'reuse':
        acc = Acc()
        run_reuse(spec[1], spec[2], acc)
        return acc
    utier, stier, k, n = spec
    acc = Acc()
    U = universe(utier)
    S = stacks(stier)
    for si, st in enumerate(S):
        for i1, t1 in enumerate(U):
            if (si * len(U) + i1) % n != k:
                continue
            for i2, t2 in enumerate(U):
                variants = [(ca, 'listpair') for ca in [None] + list(range(len(st)))]
                if si == 0 and (has_dot(t1) or has_dot(t2)):
                    variants.append((None, 'functor'))     # t2's '.' cells built with functor('.', [h, t])
                if si == 0:
                    variants.append((None, 'textnames'))   # t2's atom and functor names are instances of a str subclass
                for create_at, dots2 in variants:
                    idx = (si, i1, i2, -1 if create_at is None else create_at, dots2)
                    acc.n['evaluations'] += 1
                    r = check_pair(st, t1, t2, create_at, dots2)
                    if r[0] == 'skip':
                        acc.skipped[r[1]] += 1
                        continue
                    acc.n['validated'] += 1
                    if r[0] == 'violation':
                        case = {'stack': _j(st), 't1': _j(t1), 't2': _j(t2), 'create_at': create_at, 'dots2': dots2}
                        acc.violation(r[1], idx, case, r[2], key='%s|%s|%s|%s|%s' % (si, show_term(t1), show_term(t2), create_at, dots2))
                        continue
                    acc.n['transitions'] += r[2]
                    if r[3]:
                        acc.n['nontrivial'] += 1
                    acc.outcome((si, r[1]))
                    if r[3] and i1 * 7 + i2 * 13 + si == 300 + k:
                        acc.sample({'stack': ['%s = %s' % (show_term(l), show_term(r_)) for l, r_ in st],
                                    't1': show_term(t1), 't2': show_term(t2), 'mgu_observation_XYZ_t1_t2': show_obs(r[1])}, limit=1)
    return acc


def replay(case):
    if 'copy' in case:
        t, mode, order, pre = case['copy']
        r = check_copy(_t(t), mode, dict(copy_modes())[mode], order, pre)
        return [(r[1], r[2])] if r[0] == 'violation' else []
    if 'limits' in case:
        import sys
        t1, t2, dl = _t(case['limits'][0]), _t(case['limits'][1]), case['limits'][2]
        depth = 0
        f = sys._getframe()
        while f is not None:
            depth += 1
            f = f.f_back
        env = ref_unify(t1, t2, {})
        exp = None if env is None else canon([X, Y, Z, t1, t2], env)
        for lim in range(depth + 6, depth + 60):
            yp = impl.YP()
            vm = {}
            vs = [impl.to_engine(yp, v, vm) for v in (X, Y, Z)]
            e1, e2 = impl.to_engine(yp, t1, vm), impl.to_engine(yp, t2, vm)
            got = None
            old = sys.getrecursionlimit()
            try:
                sys.setrecursionlimit(lim)
                for _ in impl.engine.unify(e1, e2):
                    sys.setrecursionlimit(old)
                    got = impl.observe(vs + [e1, e2])
                    break
            except RecursionError:
                continue
            finally:
                sys.setrecursionlimit(old)
            if got != exp:
                return [('limits:wrong-outcome-instead-of-recursion-error', 'under recursion limit %d: %s, expected %s' % (lim, got, exp))]
        return []
    if 'reuse' in case:
        acc = Acc()
        run_reuse(case['reuse'][0], 8, acc)
        return [(sig, g['detail']) for sig, g in acc.groups.items()]
    r = check_pair(_t(case['stack']), _t(case['t1']), _t(case['t2']), case.get('create_at'), case.get('dots2', 'listpair'))
    if r[0] == 'violation':
        return [(r[1], r[2])]
    return []
