"""C19 - the yldpc command line equals the library; debug options only add comments."""
import ast
import itertools
import os
import re
import shutil
import subprocess
import sys
import tempfile

from .. import impl
from ..runner import Acc

ID = 'C19'
LEVEL = 'model_checking'
RULE = ('programs (facts, rules with cut / if-then-else / negation, atoms with embedded newlines and with a # after a '
        'newline, atoms containing every other line separator (bare CR, CR LF, VT, FF, FS/GS/RS, NEL, LS, PS), non-ASCII atoms, atoms with NUL and other control characters, a 140 KiB source with two-byte characters at even and odd offsets, lists and anonymous variables, empty and comment-only files, sources whose file names contain [ ] and ? next to files that these names would match as patterns, a syntax error, a character outside the lexicon, 400 and 600 nested redundant parentheses (for 600 the command line must decide as the library does, for every flag combination), a '
        'non-callable goal, a clause too large for Python, an unsupported term) x ALL 16 combinations (for the programs that probe one input shape: 4 combinations) of -d '
        '--debug-parser --debug-generator --debug-filename x {stdout, -o file that already exists with longer content} x {file argument, - with the text on '
        'standard input, the path /dev/stdin fed from a pipe (a source that is not a regular file)} x {one source, two sources, a second source that does not compile, a first source that does not compile followed by this one, a first source that stops in the middle of a clause followed by this one}, each run as a real '
        'subprocess of `python -m yldprolog.compiler`. Checked: with the debug options off the output equals the '
        'concatenation of compile_prolog_from_file of the sources in order; the exit status is non-zero iff a source does '
        'not compile, and for a syntax error stderr names the file and line:column; for every flag combination the '
        'output with the lines starting with # removed equals the debug-off output with those lines removed, and it is '
        'still Python. states = distinct (program, configuration class, outcome); transitions = subprocesses; '
        'non-trivial = a debug option is on or the input comes from stdin')
ASSUMPTIONS = ['the command line is exercised as `python -m yldprolog.compiler` with PYTHONPATH pointing at the examined tree '
               '(the installed yldpc entry point calls the same main())',
               'comment line = line (as the Python tokenizer splits lines: LF, CR LF, bare CR) whose first character is #']

PROGRAMS = [
    ('facts', 'parent(tom,bob).\nparent(pam,bob).\n', 'ok'),
    ('newlines', "book('The magic\nof embedded\nnewlines').\nbook('a\n# not a comment').\np(X) :- book(X), X \\= 'two\nlines'.\n", 'ok'),
    ('unicode', "book('五輪書').\nauthor('é', X) :- X = 'ü'.\n", 'ok'),
    ('syntax-error', 'foo(a).\nbar(b :- c.\n', 'syntax'),
    ('control', 'add(X,L,L) :- member(X,L), !.\nadd(X,L,[X|L]).\ng(X) :- ( a(X) -> b(X) ; c(X) ), \\+ d(X).\nh(X) :- ( p(X) -> q(X) ; r(X) ).\nk(X) :- \\+ h(X), ( g(X) -> true ; fail ).\n', 'ok'),
    ('lists', "four([_,_,_,_]).\nsplit([H|T], H, T).\nq('it\\'s', [1,2,3], f(g(h))).\n", 'ok'),
    ('empty', '', 'ok'),
    ('comments', '% only a comment\n% and another\n', 'ok'),
    ('not-callable', 'foo(X) :- X.\n', 'compile-error'),
    ('too-large', 'p(X) :- %s.\n' % ', '.join('g%d(X)' % i for i in range(25)), 'compile-error'),
    ('leftover', 'foo(a). ) garbage\n', 'syntax'),
    ('unterminated', "foo(a).\nbar('unterminated).\n", 'syntax'),
    ('linebreaks', "m1('five\rsix').\nm2('a\r\nb').\nm3('x\x0by', 'p\x0cq').\nm4('u\x85v', 's\u2028t', 'w\u2029z', 'i\x1cj\x1dk\x1el').\n"
                   "p(X) :- 'go\rdef'(X), X = 'cr\rafter'.\ngreet('hello\rdef injected_0():\r  yield False\rmakelist = variable\r#').\n", 'ok'),
    ('directives-discontiguous', ":- init(_, _).\np(_, a).\nq(_, X) :- p(_, X).\np(b, _) :- q(_, _).\n:- other(_).\nq(_, _).\nr([_|_], f(_)).\np(_, _) :- r(_, _).\n", 'ok'),
    ('control-characters', "c0('a\x00b', '\x01\x07\x1b', 'del\x7f').\nnul(X) :- c0('\x00', X, _), X \\= 'z\x00'.\n", 'ok'),
    # a source of about 140 KiB in which two-byte characters sit at even AND at odd byte offsets, so that
    # whatever block size a reader uses, some character straddles a block boundary
    ('large-non-ascii', "first('\u00fc').\n% " + '\u00e9' * 35000 + "\nmiddle('\u00e4\u00f6').\n%  " + '\u00e9' * 35000 + "\nlast('Z\u00fcrich', '\u4e94').\n", 'ok'),
    ('lexical-error', 'foo(a).\nbar(b#).\nbaz(c).\n', 'syntax'),
    # redundant parentheses: deep for the parser and the visitor, flat for the generated code
    ('deep-parentheses', 'p(%sa%s).\n' % ('(' * 400, ')' * 400), 'ok'),
    ('very-deep-parentheses', 'p(%sa%s).\n' % ('(' * 600, ')' * 600), 'as-library'),
    # file names with characters that mean something to a shell or to glob(): the name is a name
    ('report[12]', 'bracketed(name).\n', 'ok'), ('report1', 'sibling(one).\n', 'ok'), ('what?', 'question(mark).\n', 'ok'), ('whatx', 'sibling(x).\n', 'ok'),
    # ... or to a formatting operation (%, {}), to the environment ($, ~), to a shell (quote, blank, semicolon, backslash)
    ('100%', 'percent(sign).\n', 'ok'), ('rate%done%s', 'percent(twice).\n', 'ok'), ('{0}{name}', 'braces(name).\n', 'ok'), ('$HOME', 'dollar(name).\n', 'ok'),
    ('~', 'tilde(name).\n', 'ok'), ('back\\slash', 'backslash(name).\n', 'ok'), ("it's", 'quote(name).\n', 'ok'), ('two words;x', 'blank(name).\n', 'ok'),
    # ... or to a terminal (an ANSI colour sequence), and names near the length limit of a file name - also for a
    # program with a syntax error, whose report names the file AND the position however long the name is
    ('\x1b[1mbold\x1b[0m', 'escape(sequence).\n', 'ok'), ('n' * 236, 'long(name).\n', 'ok'), ('e' * 236, 'foo(a).\nbar(b :- c.\n', 'syntax'),
    ('f' * 120, "foo(a).\nbar('unterminated %s).\n" % ('x' * 300), 'syntax'),
    ('hash-in-atoms', "colour(sky, '#87ceeb').\nnote('a # b', 'c').\n", 'ok'),
    ('open-ended', 'wet(X) :- rain(X),\n', 'syntax'),
    ('multiline-clause', "longer(\n  'first\nsecond',\n  X\n) :-\n  true,\n  X = 'x'.\n", 'ok'),
]
QUICK = ['facts', 'newlines', 'unicode', 'syntax-error', 'control', 'linebreaks', 'too-large', 'directives-discontiguous', 'control-characters', 'large-non-ascii', 'lexical-error', 'deep-parentheses', 'very-deep-parentheses', 'report[12]', 'what?', '100%', 'rate%done%s', '{0}{name}', '$HOME', '~', 'back\\slash', "it's", 'two words;x', '\x1b[1mbold\x1b[0m', 'n' * 236, 'e' * 236, 'f' * 120, 'hash-in-atoms']
FLAGS = ['-d', '--debug-parser', '--debug-generator', '--debug-filename']


def bounds(tier):
    return {'programs': len(QUICK) if tier == 'quick' else len(PROGRAMS), 'flag_combinations': 16}


_PY_LINE_END = re.compile(r'\r\n|\r|\n')


def strip_comments(s):
    """remove comment lines; a line ends where it ends for the Python tokenizer (LF, CR LF or a bare CR)"""
    return '\n'.join(l for l in _PY_LINE_END.split(s) if not l.startswith('#'))


def run_cli(args, stdin_text, cwd, stdin_mode='pipe'):
    env = dict(os.environ)
    env['PYTHONPATH'] = impl.SRC
    env['PYTHONIOENCODING'] = 'utf-8'
    env['LC_ALL'] = 'C.UTF-8'
    env.pop(impl.GUARD, None)
    if stdin_mode == 'file-at-offset' and stdin_text is not None:
        # standard input is a REGULAR FILE of which the caller has already read the first line (a header): the
        # program is what follows from the current position
        import tempfile
        fd, path = tempfile.mkstemp(prefix='verif-c19-stdin-', dir=cwd)
        try:
            with os.fdopen(fd, 'wb') as f:
                f.write(b'header_line(that_the_caller_reads_itself).\n' + stdin_text.encode('utf8'))
            fh = os.open(path, os.O_RDONLY)
            try:
                hdr = b''
                while not hdr.endswith(b'\n'):
                    hdr += os.read(fh, 1)
                p = subprocess.run([sys.executable, '-m', 'yldprolog.compiler'] + args, stdin=fh, capture_output=True, cwd=cwd, env=env, timeout=600)
            finally:
                os.close(fh)
        finally:
            os.unlink(path)
        return p.returncode, p.stdout.decode('utf8', 'replace'), p.stderr.decode('utf8', 'replace')
    p = subprocess.run([sys.executable, '-m', 'yldprolog.compiler'] + args, input=(stdin_text.encode('utf8') if stdin_text is not None else None),
                       capture_output=True, cwd=cwd, env=env, timeout=600)
    return p.returncode, p.stdout.decode('utf8', 'replace'), p.stderr.decode('utf8', 'replace')


def lib_output(path):
    try:
        return impl.compiler.compile_prolog_from_file(path, impl.Ctx), None
    except Exception as e:  # noqa: BLE001
        return None, e


# the six general programs run under the full cross product of configurations; the programs that probe one
# particular input shape run under 4 flag sets (none, all, parser only, generator + filename) alone and
# followed by a second source
FULL_CROSS_PRODUCT = ('facts', 'newlines', 'unicode', 'syntax-error', 'control', 'linebreaks')
REDUCED_FLAGS = ((False,) * 4, (True,) * 4, (False, True, False, False), (False, False, True, True), (False, False, False, True))


def configurations(progs):
    names = [p[0] for p in progs]
    for name in names:
        for flags in itertools.product([False, True], repeat=4):
            for out in ('stdout', 'file'):
                for inp in ('file', 'stdin', 'devstdin', 'stdin-file-at-offset'):
                    # devstdin: the source is a PATH that is not a regular file (/dev/stdin fed from a pipe,
                    # as with shell process substitution); only with all debug flags off / all on
                    if inp == 'devstdin' and flags not in ((False,) * 4, (True,) * 4):
                        continue
                    if inp == 'stdin-file-at-offset' and (flags not in ((False,) * 4, (True,) * 4) or name not in FULL_CROSS_PRODUCT):
                        continue
                    if name == 'large-non-ascii' and flags not in ((False,) * 4, (False, False, True, True)):
                        continue    # (the parser trace of a big file is big: only flag sets without it)
                    reduced = name not in FULL_CROSS_PRODUCT
                    if reduced and flags not in REDUCED_FLAGS:
                        continue
                    for multi in ('one', 'two', 'second-fails', 'first-fails', 'first-open-ended'):
                        if multi == 'first-open-ended' and inp != 'file':
                            continue
                        if reduced and multi not in ('one', 'two'):
                            continue
                        yield name, flags, out, inp, multi


def sibling(text):
    """the text with ONE character changed: the last letter or digit behind the last # (if a # is followed by one
    on its line), else the last letter or digit of the text"""
    i = text.rfind('#')
    pos = None
    if i >= 0:
        j = i + 1
        while j < len(text) and text[j] not in '\n\r':
            if text[j].isalnum() and text[j].isascii():
                pos = j
            j += 1
    if pos is None:
        for j in range(len(text) - 1, -1, -1):
            if text[j].isalnum() and text[j].isascii():
                pos = j
                break
    if pos is None:
        return text + 'extra(clause).\n'
    c = text[pos]
    return text[:pos] + ('b' if c != 'b' else 'c') + text[pos + 1:]


def check_config(tmp, table, cfg, cache):
    """-> (status, sig, detail, outcome)"""
    name, flags, out, inp, multi = cfg
    text, kind = table[name]
    sources = [name]
    if multi == 'two':
        sources.append('facts')
    elif multi == 'first-fails':
        # a source that does not compile FOLLOWED by this one: the status is non-zero whatever comes later
        sources = ['syntax-error', name]
    elif multi == 'first-open-ended':
        # a first source that stops in the middle of a clause (every source is a program of its own:
        # what follows in the NEXT source must not complete it)
        sources = ['open-ended', name]
    elif multi == 'second-fails':
        sources.append('syntax-error')
    fl = [f for f, on in zip(FLAGS, flags) if on]
    args = list(fl)
    outpath = None
    if out == 'file':
        outpath = os.path.join(tmp, 'out_%d.py' % os.getpid())
        # the output file already exists and holds something longer than any output (an earlier,
        # bigger compilation to the same path): -o replaces the file, it does not write into it
        stale = '# output of an earlier compilation\nstale_name\n' * 3000
        if not flags[3] and multi == 'one':
            # ... or (every second flag set) the output of an EARLIER VERSION of the same source, which differs from
            # it in one character - behind a # inside a quoted atom if there is one: the file is rewritten all the same
            try:
                stale = impl.compile_text(sibling(text))
            except Exception:  # noqa: BLE001
                pass
        with open(outpath, 'w', encoding='utf8', newline='') as f:
            f.write(stale)
        args += ['-o', outpath]
    stdin_text = None
    paths = []
    for i, s in enumerate(sources):
        if i == 0 and inp in ('stdin', 'stdin-file-at-offset'):
            args.append('-')
            stdin_text = table[s][0]
            paths.append('-')
        elif i == 0 and inp == 'devstdin':
            args.append('/dev/stdin')
            stdin_text = table[s][0]
            paths.append('/dev/stdin')
        else:
            args.append(s + '.prolog')
            paths.append(s + '.prolog')
    rc, so, se = run_cli(args, stdin_text, tmp, stdin_mode=('file-at-offset' if inp == 'stdin-file-at-offset' else 'pipe'))
    produced = so
    if outpath:
        produced = open(outpath, encoding='utf8', newline='').read() if os.path.exists(outpath) else ''
    label = 'yldpc %s   (cwd holds %s%s)\n' % (' '.join(args), ', '.join(s + '.prolog' for s in sources),
                                               '; the text of %s.prolog is piped to stdin' % sources[0] if inp in ('stdin', 'devstdin') else '; stdin is a regular file holding a header line, which the caller has read, and then the text of %s.prolog' % sources[0] if inp == 'stdin-file-at-offset' else '')
    kinds = [table[s][1] for s in sources]
    should_fail = any(k != 'ok' for k in kinds)
    if should_fail:
        if rc == 0:
            return ('violation', 'exit-status-zero-on-failure', label + 'a source does not compile (%s) but the exit status is 0' % kinds, None)
        first_bad = [i for i, k in enumerate(kinds) if k != 'ok'][0]
        if kinds[first_bad] == 'syntax':
            pat = re.escape(paths[first_bad]) + r':\d+:\d+'
            if not re.search(pat, se):
                return ('violation', 'syntax-error-without-file-and-position',
                        label + 'stderr does not name the file and position of the syntax error (expected %s:<line>:<column>); stderr ends with:\n%s' % (paths[first_bad], se[-400:]), None)
        return ('ok', None, None, (name, 'fails', kinds[first_bad]))
    if rc != 0:
        return ('violation', 'exit-status-nonzero', label + 'all sources compile through the library but the exit status is %d; stderr ends with:\n%s' % (rc, se[-600:]), None)
    expected = ''
    for s in sources:
        lo, exc = cache[s]
        expected += lo
    if not any(flags):
        if produced != expected:
            return ('violation', 'output-differs-from-library', label + 'the output differs from compile_prolog_from_file of the sources:\n%s' % first_diff(expected, produced), None)
    else:
        if strip_comments(produced) != strip_comments(expected):
            return ('violation', 'debug-option-changes-code',
                    label + 'with comment lines removed the output differs from the debug-off output:\n%s' % first_diff(strip_comments(expected), strip_comments(produced)), None)
        try:
            ast.parse(produced)
        except SyntaxError as e:
            return ('violation', 'debug-output-not-python', label + 'the output is not Python: %s' % e, None)
        if flags == (False, False, False, True):
            # with --debug-filename alone the library, given the same option and the same source name,
            # returns a definite text: the command line writes exactly that text (comments included)
            want = ''
            try:
                for s_, pth in zip(sources, paths):
                    class DF(impl.Ctx):
                        debug_filename = True
                        current_source_file = pth
                    want += impl.compiler.compile_prolog_from_string(table[s_][0], DF)
            except Exception:  # noqa: BLE001
                want = None
            if want is not None and produced != want:
                return ('violation', 'output-differs-from-library:debug-filename', label + 'the output differs from what the library returns for the same text, source name and option:\n%s' % first_diff(want, produced), None)
    if outpath and so.strip():
        return ('violation', 'stdout-not-empty-with-o', label + 'with -o the code also went to stdout: %r' % so[:200], None)
    return ('ok', None, None, (name, 'ok', any(flags), out, inp, multi))


def first_diff(a, b):
    la, lb = a.split('\n'), b.split('\n')
    for i, (x, y) in enumerate(zip(la, lb)):
        if x != y:
            return '  line %d: expected %r\n           got      %r' % (i + 1, x, y)
    return '  expected %d lines, got %d lines' % (len(la), len(lb))


def setup(tmp, progs):
    table = {}
    for name, text, kind in PROGRAMS:
        table[name] = (text, kind)
        with open(os.path.join(tmp, name + '.prolog'), 'w', encoding='utf8', newline='') as f:
            f.write(text)
    return table


NSH = 32


def plan(tier):
    return [(tier, k, NSH) for k in range(NSH)]


def run_shard(spec):
    tier, k, n = spec
    acc = Acc()
    progs = [p for p in PROGRAMS if tier != 'quick' or p[0] in QUICK]
    tmp = tempfile.mkdtemp(prefix='verif-c19-')
    try:
        table = setup(tmp, progs)
        cache = {}
        for name, (text, kind) in table.items():
            lo, exc = lib_output(os.path.join(tmp, name + '.prolog'))
            cache[name] = (lo, exc)
            if kind == 'as-library':
                # near a size limit: whatever the library decides (all debug options off) is what the
                # command line must decide for every combination of debug options
                kind = 'ok' if exc is None else 'compile-error'
                table[name] = (text, kind)
            if k == 0:
                # the classification of the programs is itself checked against the library
                acc.n['evaluations'] += 1
                acc.n['validated'] += 1
                if (exc is None) != (kind == 'ok'):
                    acc.violation('library-classification', (0, name), {'program': name},
                                  'program %s: expected to %s through the library, but %r' % (name, 'compile' if kind == 'ok' else 'fail', exc), key=name)
        for idx, cfg in enumerate(configurations(progs)):
            if idx % n != k:
                continue
            acc.n['evaluations'] += 1
            acc.n['validated'] += 1
            acc.n['transitions'] += 1
            st, sig, detail, outcome = check_config(tmp, table, cfg, cache)
            if st == 'violation':
                acc.violation(sig, (1, idx), {'config': [cfg[0], list(cfg[1]), cfg[2], cfg[3], cfg[4]]}, detail, key=repr(cfg))
                continue
            if any(cfg[1]) or cfg[3] == 'stdin':
                acc.n['nontrivial'] += 1
            acc.outcome(outcome)
            if idx % 211 == 0:
                acc.sample({'program': cfg[0], 'flags': [f for f, on in zip(FLAGS, cfg[1]) if on], 'output_to': cfg[2], 'input_from': cfg[3], 'sources': cfg[4]}, limit=1)
    finally:
        shutil.rmtree(tmp, ignore_errors=True)
    return acc


def replay(case):
    tmp = tempfile.mkdtemp(prefix='verif-c19-')
    try:
        table = setup(tmp, PROGRAMS)
        cache = {name: lib_output(os.path.join(tmp, name + '.prolog')) for name in table}
        c = case['config']
        st, sig, detail, _ = check_config(tmp, table, (c[0], tuple(c[1]), c[2], c[3], c[4]), cache)
        if st == 'violation':
            return [(sig, detail)]
        return []
    finally:
        shutil.rmtree(tmp, ignore_errors=True)
