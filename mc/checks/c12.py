"""C12 - Prolog text cannot become Python code; loaded code sees only the engine API."""
import itertools
import os

from .. import impl, pyast
from .. import refgrammar as rg
from ..budget import StepBudget, Exceeded
from ..runner import Acc, watchdog, Hang
from ..terms import show_atom

ID = 'C12'
LEVEL = 'model_checking'
RULE = ('(histories: every sequence of <= 4 operations out of load / load with overwrite / clear / assert_fact / query containing a load: after every operation the evaluation context has an empty __builtins__ and every loaded function has globals with that empty mapping) (positions also in the second / third clause of a predicate and in a second predicate; payloads that re-open a block at every indentation after a line break) ' '(payloads also with ASCII punctuation replaced by the compatibility forms U+FF01..U+FF5E) ' '(every payload also at the start, the end and in the middle of a long multi-line text; three neighbouring long texts that cooperate: the first ends and the last starts with 1..3 quote characters of either kind, the middle one is code) ' 'every string of length <= 3 [quick: length 3 only in 5 of the 17 positions] over the 18 characters {a Z 0 _ space \' " LF CR # % ( ) , . : é 五} '
        'plus 30 payloads (Python expressions, statements after a newline, engine/API names, dunder names, each carrying '
        'a unique marker) as a quoted atom in EVERY syntactic position (clause-head name - also in a parenthesised or operator head -, body-goal name, head argument, '
        'goal argument, functor name, list element, directive argument, both sides of =), and 288 generated break-out attempts (quote of either kind + code + closers + comment tail, with and without the other kind of quote), and every hostile identifier as '
        'a variable name in head and body; goals named like the compiler\'s internal markers ($CUTIF, ...) and like EVERY short string literal found in the source of the compiler modules, with hostile arguments. For each output: (i) provenance - the marker occurs only inside constants, '
        'clause-local names or a function name that is an identifier; (ii) reference closure - module body is function '
        'definitions only, no Attribute/Import/Lambda/Global/class/decorator/default, every name read is local or an '
        'engine API name, no API name is assigned; (iii) dynamic - the output is loaded with __builtins__ replaced by a '
        'recording mapping and call-counting wrappers around every context entry: loading performs no call and no '
        'builtin lookup, running the defined predicates performs no builtin lookup; texts that contain a line separator or a payload are also compiled with debug options on (all of them; for payloads also generator only, generator+filename, parser only - what the first two lines of the file are differs), written to a file and loaded through load_script_from_file - the text that the loader hands to compile() is judged by the same rules. Plus hostile queries: every attribute name of the engine object, every API '
        'name, context key, dunder name and payload as predicate name x arity 0..3 x hostile arguments must yield '
        'nothing, call no API function through the context and touch no builtin. states = distinct (position, '
        'outcome) classes; transitions = compile/load/query operations; non-trivial = code was produced for a hostile string')
ASSUMPTIONS = ['backslashes inside quoted atoms are unspecified and not generated (a quote is written as \\\')',
               'the structural rules constrain names and provenance, not the shape of the emitted control flow']
CHARS = ['a', 'Z', '0', '_', ' ', "'", '"', '\n', '\r', '#', '%', '(', ')', ',', '.', ':', 'é', '五']
MARK = 'zq7'
PAYLOADS = [
    "zq7'+__import__('os').system('true')+'", 'zq7"+str(1)+"', "zq7\nimport os", "zq7():\n  pass\nimport sys\ndef zq7b",
    "zq7\n  raise ValueError", "ATOM_NIL", "query", "unify", "atom", "variable", "True", "None", "False", "__builtins__",
    "__import__", "__class__", "zq7.__class__", "zq7)]): pass #", "zq7'", 'zq7"', "zq7\\", "zq7 # comment", "zq7\r\nimport os",
    "zq7;import os", "zq7=1", "zq7\rimport os", "zq7\rdef zq7c():\r  yield False\rmakelist = variable\r#", "zq7\x0cimport os", "zq7\u2028import os", "zq7\x85import os", "lambda: zq7", "zq7_1", "zq7_n", "doBreak", "l1", "arg1", "zq7 import os", "yield zq7", "functor",
]
# break-out attempts: a quote of either kind, something that would be code (the marker as a further
# argument, list element or operand), a run of closers that could balance the call the literal sits
# in, and a tail that comments out the rest of the line - each also with the OTHER kind of quote
# somewhere in the text (a generator that picks the quote character by content takes another path)
def _breakouts():
    out = []
    for q, other in (("'", '"'), ('"', "'")):
        for sep in (',zq7', ',[zq7]', '+zq7', ''):
            for closer in ('', ')', '))', ')))', ']))', ')])'):
                for tail in (': #', ' #', ':\n  pass #'):
                    base = 'a' + q + sep + closer + tail
                    out.append(base)
                    out.append(base + other)
    return out


BREAKOUTS = _breakouts()
# texts that are harmless as they stand and become a quote + code when the file is decoded with the
# codec they themselves name (a coding declaration works from inside a comment on line 1 or 2)
BREAKOUTS += ['coding:utf_7 a+ACc-,zq7)): #', 'coding=utf-7 a+ACc-))), zq7 #', '-*- coding: utf_7 -*- +ACcAKQApACk-: zq7 #',
              'coding:utf_16 a', 'coding:rot13 n', 'coding:unicode_escape a\\x27,zq7)): #', 'coding:raw_unicode_escape a\\u0027,zq7)): #']
# ... and every payload with its ASCII punctuation replaced by the compatibility (full-width) forms U+FF01..U+FF5E,
# which a Unicode normalisation somewhere on the way would turn back into quotes, brackets and backslashes
def _fullwidth(s):
    return ''.join(chr(ord(c) + 0xFEE0) if ('!' <= c <= '~' and not c.isalnum()) else c for c in s)


BREAKOUTS += [w for w in (_fullwidth(x) for x in _breakouts()[::3]) if w not in BREAKOUTS]
BREAKOUTS += ["\uff07+atom(\uff07zq7\uff07).name()+\uff07", "a\uff07,zq7)): #", "a\uff3c", "a\ufe68\uff07,zq7", "\uff02+zq7+\uff02", "zq7\uff07\uff09\uff09: #"]
# ... and texts that, after a line break, RE-OPEN a block at every indentation (so that whatever code follows the
# place where the text ends up - e.g. a comment that repeats the clause - stays well-formed Python)
for _ind in (0, 2, 4, 6):
    for _opener in ('for _ in [1]: #', 'if zq7: #', 'while zq7: #', 'try: #'):
        PAYLOADS.append('zq7\n' + ' ' * _ind + _opener)
        PAYLOADS.append('zq7\ndef zq7b():\n' + ' ' * (_ind + 2) + _opener)
INTERNAL_NAMES = ['$CUTIF', '$cutif', '$CUT', '$BREAK', '$VAR', 'cutIf1', 'doBreak', '$CUTIF_1', '$IF', '$label']
def names_in_compiler_source():
    """every short string literal in the source of the compiler modules: if the compiler recognises
    some goal, functor or atom by NAME (an internal marker, a keyword), the name is one of these"""
    import ast
    out = []
    d = os.path.join(impl.REPO, 'src', 'yldprolog')
    for fn in sorted(os.listdir(d)):
        if not fn.endswith('.py') or fn in ('prologParser.py', 'prologLexer.py', 'prologVisitor.py', 'prologListener.py', 'engine.py'):
            continue
        try:
            tree = ast.parse(open(os.path.join(d, fn), encoding='utf8').read())
        except (SyntaxError, OSError):
            continue
        for node in ast.walk(tree):
            if isinstance(node, ast.Constant) and isinstance(node.value, str):
                v = node.value
                if 0 < len(v) <= 16 and '\n' not in v and '\\' not in v and ' ' not in v and v not in out:
                    out.append(v)
    return out


HARVEST_ARGS = ['x', 'zq7.__class__', "zq7'", 'zq7\nimport os', 'lbl']
INTERNAL_TEMPLATES = ['p :- %n(%s), q.', 'p :- q, %n(%s).', 'p :- %n(%s).', 'p :- ( a -> %n(%s) ; b ).', 'p :- %n(%s, b), q.',
                      'p :- ( %n(%s) -> a ; b ), c.', 'p :- \\+ %n(%s), q.', 'p(X) :- %n(X, %s), q(X).']
HOSTILE_VARS = ['ATOM_NIL', 'True', 'False', 'None', 'Query', 'Unify', 'L1', 'Arg1', 'DoBreak', 'CutIf1', '__builtins__',
                '__import__', '_query', '_unify', 'X1', '_', '__', 'Variable', 'Atom']


def bounds(tier):
    return {'string_length': 3, 'positions_for_length_3': list(QUICK3) if tier == 'quick' else 'all'}


def quote(s):
    if '\\' in s:
        return None
    return "'" + s.replace("'", "\\'") + "'"


POSITIONS = [
    ('clause-head-name', '%s(a).'), ('clause-head-name-0', '%s.'), ('clause-head-name-rule', '%s(X) :- foo(X).'),
    ('body-goal-name', 'p :- %s(a).'), ('body-goal-name-0', 'p :- %s.'),
    ('head-argument', 'p(%s).'), ('goal-argument', 'p :- q(%s).'), ('functor-name', 'p(%s(a)).'),
    ('functor-name-body', 'p :- q(%s(X,b)).'), ('list-element', 'p([%s,b|T]).'), ('directive', ':- %s.'),
    ('directive-argument', ':- foo(%s).'), ('unify-lhs', 'p(X) :- %s = X.'), ('unify-rhs', 'p(X) :- X \\= %s.'),
    ('paren-head', '(%s(a)).'), ('paren-head-0', '(%s).'), ('paren-head-rule', '(%s(X)) :- foo(X).'), ('paren-paren-head', '((%s(a))).'),
    ('paren-goal', 'p :- (%s(a)).'), ('paren-argument', 'p((%s)).'), ('unop-head', '- %s(a).'), ('binop-head', '%s(a) = b.'),
    ('second-clause-argument', 'p(a).\np(%s).'), ('third-clause-goal-argument', 'p :- q(a).\np :- r(b), q(b).\np :- q(%s).'), ('second-predicate', 'p(a).\nq(b).\nq(%s) :- p(%s).'),
    ('negated-goal', 'p :- \\+ %s(a).'), ('ite', 'p :- ( %s(a) -> %s ; %s(b) ).'), ('call-argument', 'p :- call(%s, a).'),
]


QUICK3 = ('clause-head-name', 'body-goal-name', 'head-argument', 'functor-name', 'list-element', 'paren-head')


def strings(maxlen):
    for n in range(1, maxlen + 1):
        for tup in itertools.product(CHARS, repeat=n):
            yield ''.join(tup)


class Recorder(dict):
    """stands in for __builtins__: records every lookup"""

    def __init__(self):
        dict.__init__(self)
        self.lookups = []

    def __getitem__(self, k):
        self.lookups.append(k)
        return dict.__getitem__(self, k)

    def get(self, k, d=None):
        self.lookups.append(k)
        return dict.get(self, k, d)

    def __contains__(self, k):
        self.lookups.append(k)
        return dict.__contains__(self, k)


def instrumented_engine():
    yp = impl.YP()
    rec = Recorder()
    calls = []
    yp.eval_context['__builtins__'] = rec
    for k, v in list(yp.eval_context.items()):
        if callable(v):
            def wrap(f, name=k):
                def counted(*a, **kw):
                    calls.append(name)
                    return f(*a, **kw)
                return counted
            yp.eval_context[k] = wrap(v)
    return yp, rec, calls


class MethodWatch:
    """records every function of the engine module that is entered (profile hook: nothing in the
    engine object is replaced, so what the engine finds when it looks at itself is unchanged)"""

    def __init__(self):
        self.calls = []

    def _prof(self, frame, event, arg):
        if event == 'call':
            code = frame.f_code
            if code.co_filename.endswith('engine.py') and (os_sep + 'yldprolog' + os_sep) in code.co_filename:
                self.calls.append(code.co_qualname)

    def __enter__(self):
        import sys
        sys.setprofile(self._prof)
        return self.calls

    def __exit__(self, *a):
        import sys
        sys.setprofile(None)
        return False


import os as _os  # noqa: E402
os_sep = _os.sep


_internal = {}


def internal_methods(n, kind):
    """the engine methods that a query for a predicate NOBODY defined goes through (measured on the
    examined tree itself): what a hostile name may touch without reaching anything"""
    key = (n, kind)
    if key not in _internal:
        yp, rec, calls = instrumented_engine()
        with MethodWatch() as mcalls:
            try:
                for _ in yp.query('zz no such predicate', query_args(yp, kind, n)):
                    pass
            except Exception:  # noqa: BLE001
                pass
        import collections
        _internal[key] = collections.Counter(mcalls)
    return _internal[key]


def load_through_file(yp, out):
    """writes the text to a file the way the command line does and loads it with
    load_script_from_file; -> the text that the loader handed to compile() (None if it did not)"""
    import builtins
    import shutil
    import tempfile
    d = tempfile.mkdtemp(prefix='verif-c12-')
    captured = []

    def spy(source, *a, **kw):
        if isinstance(source, (str, bytes)):
            captured.append(source if isinstance(source, str) else source.decode('utf8', 'replace'))
        return builtins.compile(source, *a, **kw)
    had = 'compile' in impl.engine.__dict__
    old = impl.engine.__dict__.get('compile')
    impl.engine.__dict__['compile'] = spy
    try:
        path = os.path.join(d, 'prog.py')
        with open(path, 'w') as f:
            f.write(out)
        yp.load_script_from_file(path)
    finally:
        if had:
            impl.engine.__dict__['compile'] = old
        else:
            del impl.engine.__dict__['compile']
        shutil.rmtree(d, ignore_errors=True)
    return captured[-1] if captured else None


class DebugCtx:
    debug_filename = True
    debug_parser = True
    debug_generator = True
    current_source_file = 'src\rimport os\n.prolog'
    outf = None


# which debug options are on decides what the FIRST lines of the output file are (trace of the
# parser, comment naming the source file, text of the first clause) - and the first two lines of a
# Python file are special
DEBUG_VARIANTS = [(True, True, True), (False, True, False), (False, True, True), (True, False, False)]


def compile_debug(text, variant=(True, True, True)):
    """the text a user gets with debug options on: the debug stream followed by the code"""
    import io

    class Ctx(DebugCtx):
        pass
    Ctx.debug_parser, Ctx.debug_generator, Ctx.debug_filename = variant
    Ctx.outf = io.StringIO()
    code = impl.compiler.compile_prolog_from_string(text, Ctx)
    return Ctx.outf.getvalue() + code


def check_program(text):
    res = check_program_1(text, False)
    if res[0] == 'ok' and res[3][0] == 'loaded' and any(c in text for c in '\r\n\x0b\x0c\x85\u2028') or MARK in text:
        if res[0] == 'ok':
            for variant in (DEBUG_VARIANTS if MARK in text else DEBUG_VARIANTS[:1]):
                res2 = check_program_1(text, variant)
                if res2[0] == 'violation':
                    return (res2[0], 'debug-options-on:' + res2[1], res2[2] + '\n(debug options: parser=%s generator=%s filename=%s)' % variant, res2[3])
    return res


def check_program_1(text, debug):
    """-> (status, sig, detail, outcome)"""
    r = rg.analyse(text)
    try:
        out = compile_debug(text, debug) if debug else impl.compile_text(text)
    except Exception as e:  # noqa: BLE001
        return ('ok', None, None, ('rejected', type(e).__name__))
    if not r.accepted:
        return ('ok', None, None, ('outside-language(C10)',))
    try:
        probs = pyast.check_module(out)
    except SyntaxError as e:
        return ('ok', None, None, ('output-not-python(C11)',))
    except RecursionError:
        probs = []
    if probs:
        return ('violation', 'structure:' + probs[0][0], 'source: %r\n%s\n--- generated code\n%s' % (text, probs[0][1], out[-700:]), None)
    if MARK in text:
        bad = pyast.provenance(out, MARK)
        if bad:
            return ('violation', 'provenance:' + bad[0][0],
                    'source: %r\nsource text reached the generated code as %s: %r\n--- generated code\n%s' % (text, bad[0][0], bad[0][1], out[-700:]), None)
    # dynamic
    yp, rec, calls = instrumented_engine()
    before = set(yp.eval_context)
    try:
        if debug:
            # the text goes through a FILE, as with `yldpc -o prog.py` followed by
            # load_script_from_file: what the loader hands to compile() is what counts, whatever it
            # makes of the bytes (encodings, coding declarations in comments, line ends)
            seen_by_loader = load_through_file(yp, out)
            if seen_by_loader is not None and seen_by_loader != out:
                try:
                    probs = pyast.check_module(seen_by_loader)
                except SyntaxError:
                    probs = []
                if probs:
                    return ('violation', 'loader-reads-other-text:structure:' + probs[0][0],
                            'source: %r\nthe file written by the compiler, as read by load_script_from_file, is compiled as another text: %s\n--- text handed to compile()\n%s'
                            % (text, probs[0][1], seen_by_loader[-700:]), None)
                bad = pyast.provenance(seen_by_loader, MARK) if MARK in text else []
                if bad:
                    return ('violation', 'loader-reads-other-text:provenance:' + bad[0][0],
                            'source: %r\nas read by load_script_from_file, source text reached the code as %s: %r' % (text, bad[0][0], bad[0][1]), None)
        else:
            yp.load_script_from_string(out, fn=impl.SCRIPT_FN)
    except Exception as e:  # noqa: BLE001
        if rec.lookups or calls:
            return ('violation', 'load-executes-code', 'source: %r\nloading raised %r after builtin lookups %s / API calls %s' % (text, e, rec.lookups[:5], calls[:5]), None)
        return ('ok', None, None, ('load-raises(C11)', type(e).__name__))
    if rec.lookups or calls:
        return ('violation', 'load-executes-code',
                'source: %r\nloading the generated code looked up builtins %s and called %s' % (text, rec.lookups[:5], calls[:5]), None)
    added = sorted(set(yp.eval_context) - before)
    for key in added:
        f = yp.eval_context[key]
        name, _, ar = key.rpartition('_')
        try:
            n = int(ar)
        except ValueError:
            continue
        del rec.lookups[:]
        try:
            with StepBudget(100000):
                q = yp.query(name, [yp.variable() for _ in range(n)])
                for i, _ in enumerate(q):
                    if i > 3:
                        break
                q.close()
        except (Exceeded, RecursionError):
            pass
        except Exception:  # noqa: BLE001 - run-time errors of the program are not this property's business
            pass
        if rec.lookups:
            return ('violation', 'run-touches-builtins', 'source: %r\nrunning %s looked up builtins %s' % (text, key, rec.lookups[:5]), None)
    return ('ok', None, None, ('loaded', len(added)))


# ---- hostile queries
def query_names():
    yp = impl.YP()
    names = list(yp.eval_context.keys()) + list(pyast.API) + [n for n in dir(yp) if not n.startswith('__')] + ['__builtins__', '__class__', '__import__', '__dict__', 'eval', 'exec',
                                                               'open', 'print', 'getattr', 'query_2', 'atom_1', 'match', 'match_dynamic_2',
                                                               'unify_2', 'ATOM', 'makelist_1', '', '_', 'n', 'p'] + PAYLOADS
    # ... and every name of which a KEY-SHAPED spelling exists (name_<arity> or name_n is how definitions are
    # filed): the goal `list` must not reach something filed or named list_n, list_2, ...
    import re
    names += [re.sub(r'_(n|\d+)$', '', n) for n in names if re.search(r'_(n|\d+)$', n)]
    seen = []
    for n in names:
        if n not in seen:
            seen.append(n)
    return seen


def query_args(yp, kind, n):
    if kind == 'vars':
        return [yp.variable() for _ in range(n)]
    if kind == 'code':
        return ["__import__('os').system('true')"] * n
    if kind == 'objects':
        return [yp, yp.eval_context, [1, 2]][:n] + [yp] * max(0, n - 3)
    return [yp.atom('a')] * n


def beyond(mcalls, allowed):
    """engine functions entered more often than a query for an undefined predicate (same arguments)
    enters them: such a query is the most a hostile name may cause"""
    import collections
    c = collections.Counter(mcalls)
    return ['%s x%d (an undefined name: x%d)' % (m, k, allowed.get(m, 0)) for m, k in c.items() if k > allowed.get(m, 0)]


BUILTIN_PREDS = {'=', '\\=', 'findall', 'call', 'once', 'assertz', 'asserta', 'retract', 'retractall'}


def check_query(name, n, kind):
    allowed = internal_methods(n, kind)
    mcalls = []
    yp, rec, calls = instrumented_engine()
    watch = MethodWatch()
    answers = 0
    try:
        with StepBudget(100000), watch as mcalls:
            q = yp.query(name, query_args(yp, kind, n))
            for _ in q:
                answers += 1
                if answers > 3:
                    break
    except (Exceeded, RecursionError):
        pass
    except Exception as e:  # noqa: BLE001
        # builtins (=, call, findall ...) may legitimately raise on nonsense arguments
        if name in BUILTIN_PREDS and not rec.lookups:
            return ('ok', None, None, ('builtin-predicate-raises', type(e).__name__))
        reached = beyond(mcalls, allowed)
        if reached:
            return ('violation', 'hostile-query-reaches-api', 'query(%r, %d %s args) raised %r after calling the engine method(s) %s, which a query for an undefined predicate does not go through'
                    % (name, n, kind, e, sorted(set(reached))[:6]), None)
        if calls or rec.lookups:
            return ('violation', 'hostile-query-reaches-api', 'query(%r, %d %s args) raised %r after calling %s / builtin lookups %s' % (name, n, kind, e, calls[:5], rec.lookups[:5]), None)
        return ('ok', None, None, ('query-raises', type(e).__name__))
    builtin_preds = BUILTIN_PREDS
    if name in builtin_preds and not rec.lookups:
        return ('ok', None, None, ('builtin-predicate',))
    reached = beyond(mcalls, allowed)
    if reached:
        return ('violation', 'hostile-query-reaches-api', 'query(%r, %d %s args) called the engine method(s) %s, which a query for an undefined predicate does not go through'
                % (name, n, kind, sorted(set(reached))[:6]), None)
    api_calls = [c for c in calls if not c.endswith(tuple('_%d' % i for i in range(10))) and not c.endswith('_n')]
    if api_calls or rec.lookups:
        return ('violation', 'hostile-query-reaches-api', 'query(%r, %d %s args) called the API function(s) %s through the context / looked up builtins %s'
                % (name, n, kind, api_calls[:5], rec.lookups[:5]), None)
    if answers and name not in builtin_preds:
        return ('violation', 'hostile-query-answers', 'query(%r, %d %s args) produced %d answer(s)' % (name, n, kind, answers), None)
    return ('ok', None, None, ('no-answers',))


NSH = 32



# ---- the sandbox of an engine over its lifetime --------------------------------------------------------------------
# every history of <= 4 operations out of {load a script, clear(), assert a fact, run a query, load with overwrite}:
# after every operation the engine's evaluation context has an EMPTY __builtins__ and every function a load has
# put into it has globals whose __builtins__ is that empty mapping - also after clear() and at later loads
HIST_OPS = ['load', 'clear', 'assert', 'query', 'load-overwrite']


_HIST_PY = []


def sandbox_history(ops):
    import types
    if not _HIST_PY:
        _HIST_PY.append(impl.compile_text("hp(a).\nhp(X) :- hq(X).\nhq(b).\n"))
    pytext = _HIST_PY[0]
    yp = impl.YP()
    for i, op in enumerate(ops):
        if op == 'load':
            yp.load_script_from_string(pytext, fn=impl.SCRIPT_FN, overwrite=False)
        elif op == 'load-overwrite':
            yp.load_script_from_string(pytext, fn=impl.SCRIPT_FN, overwrite=True)
        elif op == 'clear':
            yp.clear()
        elif op == 'assert':
            yp.assert_fact(yp.atom('hq'), [yp.atom('c')])
        else:
            v = yp.variable()
            for _ in yp.query('hp', [v]):
                pass
        ctx = yp.eval_context
        b = ctx.get('__builtins__', 'MISSING')
        if not (isinstance(b, dict) and len(b) == 0):
            return 'after %r the evaluation context has __builtins__ = %s' % (ops[:i + 1], 'no entry (Python will insert its own at the next load)' if b == 'MISSING' else '%d names' % len(b) if hasattr(b, '__len__') else repr(b)[:60])
        for name, f in list(ctx.items()):
            fs = f if isinstance(f, list) else [f]
            for g in fs:
                if isinstance(g, types.FunctionType) and g.__code__.co_filename == impl.SCRIPT_FN:
                    gb = g.__globals__.get('__builtins__', 'MISSING')
                    if not (isinstance(gb, dict) and len(gb) == 0):
                        return 'after %r the loaded function %s runs with %s builtins' % (ops[:i + 1], name, 'Python\'s own' if gb == 'MISSING' or len(getattr(gb, '__dict__', gb)) else repr(gb)[:40])
    return None


def run_sandbox_histories(acc):
    import itertools
    for n in range(1, 5):
        for ops in itertools.product(HIST_OPS, repeat=n):
            if 'load' not in ops and 'load-overwrite' not in ops:
                continue
            acc.n['evaluations'] += 1
            acc.n['validated'] += 1
            acc.n['nontrivial'] += 1
            acc.n['transitions'] += n
            bad = sandbox_history(list(ops))
            if bad:
                acc.violation('history:loaded-code-sees-python-builtins', ('H', n) + tuple(HIST_OPS.index(o) for o in ops), {'history': list(ops)}, bad, key='hist|' + '|'.join(ops))
            else:
                acc.outcome(('history', 'sandboxed'))

def plan(tier):
    return [(tier, kind, k, NSH) for kind in ('strings', 'payloads', 'queries') for k in range(NSH)] + [(tier, 'histories', 0, 1)]


def run_shard(spec):
    tier, kind, k, n = spec
    acc = Acc()

    def fold(index, res, case, key, tag):
        acc.n['evaluations'] += 1
        acc.n['validated'] += 1
        acc.n['transitions'] += 1
        st, sig, detail, outcome = res
        if st == 'violation':
            acc.violation(tag + ':' + sig, index, case, detail, key=key)
            return
        acc.outcome((tag, outcome))
        if outcome[0] == 'loaded':
            acc.n['nontrivial'] += 1
            acc.n['transitions'] += 2

    if kind == 'histories':
        run_sandbox_histories(acc)
        return acc
    if kind in ('strings', 'payloads'):
        if kind == 'strings':
            items = list(strings(3))
        else:
            items = PAYLOADS + BREAKOUTS
        idx = 0
        for s in items:
            qs = quote(s)
            if qs is None:
                continue
            for pos, tmpl in POSITIONS:
                if kind == 'strings' and tier == 'quick' and len(s) == 3 and pos not in QUICK3:
                    continue
                idx += 1
                if idx % n != k:
                    continue
                text = tmpl.replace('%s', qs)
                with watchdog(60):
                    res = check_program(text)
                fold((0 if kind == 'payloads' else 1, idx), res, {'text': text}, text, pos)
                if idx % 3001 == 0:
                    acc.sample({'position': pos, 'source': text}, limit=1)
        if kind == 'payloads':
            # the same payloads inside LONG, MULTI-LINE texts (a generator that spells long or multi-line
            # literals differently takes another path): at the start, at the end and in the middle of 80+
            # characters with a line break; and three neighbouring texts that cooperate - the first ends
            # with a quote character, the last starts with one, the one between them is the code
            pad = 'x' * 40 + '\n' + 'y' * 40
            for s in items:
                for di, dressed in enumerate((pad + s, s + pad, pad + s + pad)):
                    qs = quote(dressed)
                    if qs is None:
                        continue
                    for pos, tmpl in (POSITIONS[5], POSITIONS[0], POSITIONS[7], POSITIONS[9], POSITIONS[3]):
                        idx += 1
                        if idx % n != k:
                            continue
                        text = tmpl.replace('%s', qs)
                        with watchdog(60):
                            res = check_program(text)
                        fold((6, idx), res, {'text': text}, text, 'long-multi-line:' + pos)
            for e1 in ("'", '"', "''", '"' * 2, "'" * 3, '"' * 3):
                for e3 in ("'", '"', "''", '"' * 2, "'" * 3, '"' * 3):
                    for code in (' and zq7() or ', ',zq7,', '+zq7+', ') or zq7((', ' and query.__self__.__dict__.update(zq7=1) or ', ']+[zq7]+[', ':zq7', ' if zq7 else '):
                        for tmpl in ('p(f(%1, %2, %3)).', 'p(%1, %2, %3) :- q(%1, %2, %3).', 'p([%1, %2, %3]).'):
                            idx += 1
                            if idx % n != k:
                                continue
                            text = tmpl.replace('%1', quote(pad + e1)).replace('%2', quote(code)).replace('%3', quote(e3 + pad))
                            with watchdog(60):
                                res = check_program(text)
                            fold((7, idx), res, {'text': text}, text, 'cooperating-long-literals')
            # goals whose NAME is taken from the compiler's own internal vocabulary (a quoted atom can
            # spell any name), with hostile arguments
            for nm in INTERNAL_NAMES:
                for tmpl in INTERNAL_TEMPLATES:
                    for s_ in PAYLOADS + ['x', 'X y', 'a = b', 'lbl']:
                        qs = quote(s_)
                        if qs is None:
                            continue
                        idx += 1
                        if idx % n != k:
                            continue
                        text = tmpl.replace('%n', quote(nm)).replace('%s', qs)
                        with watchdog(60):
                            res = check_program(text)
                        fold((4, idx), res, {'text': text}, text, 'internal-goal-name')
            # the same with every name the compiler's own source mentions, a few hostile arguments
            for nm in names_in_compiler_source():
                if nm in INTERNAL_NAMES or quote(nm) is None:
                    continue
                for tmpl in INTERNAL_TEMPLATES:
                    for s_ in HARVEST_ARGS:
                        idx += 1
                        if idx % n != k:
                            continue
                        text = tmpl.replace('%n', quote(nm)).replace('%s', quote(s_))
                        with watchdog(60):
                            res = check_program(text)
                        fold((5, idx), res, {'text': text}, text, 'compiler-source-name-as-goal')
            for vi, v in enumerate(HOSTILE_VARS):
                for ti, tmpl in enumerate(['p(%s) :- q(%s).', 'p(f(%s)) :- %s = [], q([]).', 'p :- q(%s), r(%s, []).', 'p([%s|T]) :- \\+ q(%s), T = [].',
                                           'p(%s, []).', 'p :- ( q(%s) -> r(%s) ; s([]) ).']):
                    idx += 1
                    if idx % n != k:
                        continue
                    text = tmpl.replace('%s', v)
                    res = check_program(text)
                    fold((2, idx), res, {'text': text}, text, 'variable-name')
    else:
        idx = 0
        for name in query_names():
            for ar in range(4):
                for akind in ('vars', 'code', 'objects', 'atoms'):
                    idx += 1
                    if idx % n != k:
                        continue
                    res = check_query(name, ar, akind)
                    fold((3, idx), res, {'query': name, 'arity': ar, 'args': akind}, '%r|%d|%s' % (name, ar, akind), 'query')
    return acc


def replay(case):
    if 'history' in case:
        bad = sandbox_history(case['history'])
        return [('history:loaded-code-sees-python-builtins', bad)] if bad else []
    if 'text' in case:
        res = check_program(case['text'])
    else:
        res = check_query(case['query'], case['arity'], case['args'])
    if res[0] == 'violation':
        return [(res[1], res[2])]
    return []
