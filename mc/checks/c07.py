"""C07 - the fact database behaves as ordered lists for every history."""
import itertools

from .. import impl
from ..diff import _j, _t, show_answers, compile_cached
from ..refprolog import Ref, canon
from ..runner import Acc, watchdog, Hang
from ..terms import A, C, F, V, call, conj, show_program, show_term, term_vars, pp

ID = 'C07'
LEVEL = 'model_checking'
RULE = ('(opnamed: a 9-event alphabet over predicates named like operators - facts of the name :- with second argument true, of the name comma - next to foo/1) ' '(L) large stores: 17 sizes N up to 130 of cfg(k_i,v_i) facts with one catch-all fact cfg(_,default) at the front / middle / end, queried with known, unknown, structured and unbound first arguments and retracted from, compared with the list model. (m) matching = unification: for every ordered pair (t1,t2) of the term universe of C02 (depth <=1 incl. zero-argument compounds, list-shaped terms, odd Python constants) the store {m(t1)} is asked m(t2) and retract(m(t2)): one answer with the bindings of the unifier iff the terms unify. (h) every history (operation sequence) of depth d over the event alphabet {asserta/assertz of p(a) p(b) p(X) '
        'p(f(Y)) q(a,b) flag; retract of p(a) p(X) p(f(X)) q(X,Y) flag nosuch(X), retract(p(X)) run to exhaustion / '
        'abandoned after the 1st / after the 2nd answer; retractall of p(a) p(_) flag nosuch(_); facts of a predicate named like an API function (variable/1) and a zero-argument fact held twice and retracted once; patterns with a repeated variable q(X,X) and partially bound q(X,a) over q/2 facts; clear}, from 4 initial '
        'stores, in 3 dress-ups (Python API - for histories with a clear also with the Atom objects of the caller created once and held across the clear, and (full alphabet) with the query objects of the whole history constructed first and evaluated later, which must change nothing; compiled clauses; compiled clauses receiving the goal in a variable bound '
        'at run time). Each history is replayed on a fresh engine with the reference model (ordered lists, copy on '
        'assert) stepped alongside; after EVERY step the answers of the operation and the contents of p/1 q/2 flag/0 '
        'nosuch/1 read back with all-variable queries must equal the model\'s. states = distinct canonical store '
        'contents reached; transitions = operations executed on the real engine; non-trivial = history changes the store')
ASSUMPTIONS = ['the reference model is RefProlog\'s database (ordered list per name/arity, copy on assert, rename on use)',
               'no operation overlaps a suspended enumeration here (that is C14)']
X, Y = V('X'), V('Y')
a, b = A('a'), A('b')
pa, pb, pX, pfY = F('p', a), F('p', b), F('p', X), F('p', F('f', Y))
ANON = ('v', ('_', 1))

EVENTS = [
    ('assert', 'z', pa), ('assert', 'z', pb), ('assert', 'a', pb), ('assert', 'z', pX), ('assert', 'z', pfY),
    ('assert', 'z', F('q', a, b)), ('assert', 'z', A('flag')), ('assert', 'a', pa),
    ('retract', pa, 'all'), ('retract', pX, 'all'), ('retract', pX, 1), ('retract', pX, 2),
    ('retract', F('p', F('f', X)), 'all'), ('retract', F('q', X, Y), 'all'), ('retract', A('flag'), 'all'),
    ('retract', F('nosuch', X), 'all'),
    ('retractall', pa), ('retractall', F('p', ANON)), ('retractall', A('flag')), ('retractall', F('nosuch', ANON)),
    ('clear',),
    # patterns in which one variable occurs twice (they match only facts whose arguments agree)
    ('assert', 'z', F('q', a, a)), ('assert', 'a', F('q', b, a)),
    ('retractall', F('q', X, X)), ('retract', F('q', X, X), 'all'), ('retractall', F('q', ANON, ('v', ('_', 2)))),
    ('retract', F('q', X, a), 'all'),
    # a predicate whose NAME is one of the engine's API functions (facts are data: they are stored,
    # enumerated and removed like any others), and a zero-argument fact held twice
    ('assert', 'z', F('variable', a)), ('assert', 'a', F('variable', b)), ('retract', F('variable', X), 1),
    ('retractall', F('variable', ANON)), ('retract', A('flag'), 1), ('assert', 'a', A('flag')),
    # predicates NAMED like the operators of the language (':-'/2 whose second argument is true is how other
    # systems spell a fact; ','/2): names like any others, with lists of their own - next to foo/1
    ('assert', 'z', F(':-', F('foo', b), A('true'))), ('assert', 'a', F(':-', F('foo', a), A('true'))), ('retract', F(':-', X, A('true')), 1),
    ('retractall', F(':-', F('foo', a), A('true'))), ('assert', 'z', F('foo', b)), ('retract', F(':-', X, Y), 'all'),
    ('assert', 'z', F(',', a, b)), ('retract', F(',', X, Y), 1),
]
OPNAMED = [33, 34, 35, 36, 37, 38, 39, 40, 20]
KEYS_OPNAMED = [(':-', 2), ('foo', 1), (',', 2)]
RESERVED = [27, 28, 29, 30, 31, 32, 6, 14, 20]
CORE = [0, 1, 2, 3, 8, 9, 10, 17, 6, 14]
CORE8 = [0, 2, 3, 8, 9, 10, 11, 16]
INITIAL = [[], [pa], [pa, pb, pa], [F('q', a, b), F('q', a, a), F('q', b, a), pa]]
KEYS = [('p', 1), ('q', 2), ('flag', 0), ('nosuch', 1)]
KEYS_RESERVED = [('variable', 1), ('flag', 0), ('atom', 1)]
_keys = {'now': KEYS}
DRESS = ['api', 'compiled', 'goal-in-variable']
# a 4th dress-up, run for the histories that contain clear: the Python API with the Atom objects
# of the caller created once, when the engine is new, and HELD for the whole history (a caller
# keeps its `p = yp.atom('p')` around; after clear() the engine no longer knows these objects)
HELD = 'api-held-atoms'
# a 6th dress-up, also for the histories that contain clear: the engine is an instance of the application's own
# SUBCLASS of YP whose constructor preloads a fact and registers a function - clear() empties it like any engine
SUBCLASS = 'api-subclassed-engine'
BOOT_FACT = F('q', A('boot'), A('boot'))
CLEAR = None


class HeldAtoms:
    def __init__(self, yp):
        self._yp = yp
        self._atoms = {}

    def atom(self, name):
        a = self._atoms.get(name)
        if a is None:
            a = self._atoms[name] = self._yp.atom(name)
        return a

    def __getattr__(self, name):
        return getattr(self._yp, name)


CLEAR_INDEX = EVENTS.index(('clear',))
ATOM_NAMES = ['p', 'q', 'flag', 'nosuch', 'a', 'b']


def bounds(tier):
    if tier == 'quick':
        return {'full_alphabet_depth': 3, 'core10_depth': 4, 'events': len(EVENTS)}
    return {'full_alphabet_depth': 4, 'core10_depth': 5, 'core8_api_depth': 6, 'events': len(EVENTS)}


def event_name(ev):
    if ev[0] == 'assert':
        return 'assert%s(%s)' % (ev[1], show_term(ev[2]))
    if ev[0] == 'retract':
        return 'retract(%s)%s' % (show_term(ev[1]), '' if ev[2] == 'all' else '[abandoned after answer %d]' % ev[2])
    if ev[0] == 'retractall':
        return 'retractall(%s)' % show_term(ev[1])
    return 'clear'


def script_for(dress):
    """one clause per event: opN(Vars) :- <operation>."""
    clauses = []
    for i, ev in enumerate(EVENTS):
        if ev[0] == 'clear':
            continue
        if ev[0] == 'assert':
            goal, pat = F('assert' + ev[1], ev[2]), ev[2]
        elif ev[0] == 'retract':
            goal, pat = F('retract', ev[1]), ev[1]
        else:
            goal, pat = F('retractall', ev[1]), ev[1]
        hv = [('v', k) for k in term_vars(pat) if not isinstance(k, tuple)]
        if ev[0] == 'assert':
            hv = []
        head = F('op%d' % i, *hv) if hv else A('op%d' % i)
        if dress == 'compiled':
            body = call(goal)
        else:
            body = conj(call(F('=', V('G'), pat)), call(F(goal[1], V('G'))))
        clauses.append((head, body))
    return clauses


def do_event_impl(yp, ev, i, dress, pytext):
    """-> list of observations (one per answer)"""
    if ev[0] == 'clear':
        yp.clear()
        if dress not in ('api', HELD):
            yp.load_script_from_string(pytext, fn=impl.SCRIPT_FN)
        return ['cleared']
    vm = {}
    if dress == HELD:
        dress = 'api'
    if dress == 'api':
        if ev[0] == 'assert':
            t = ev[2]
            args = [impl.to_engine(yp, x, vm) for x in (t[2] if t[0] == 'f' else ())]
            yp.assert_fact(yp.atom(t[1]), args, ev[1] == 'z')
            args[:] = ['overwritten by the caller'] * len(args)    # the list is the caller's (see mc/worlds.py)
            return [()]
        pat = ev[1]
        obsv = [('v', k) for k in term_vars(pat) if not isinstance(k, tuple)]
        q = yp.query(ev[0], [impl.to_engine(yp, pat, vm)])
        obs = [impl.to_engine(yp, v, vm) for v in obsv]
    else:
        pat = ev[2] if ev[0] == 'assert' else ev[1]
        obsv = [] if ev[0] == 'assert' else [('v', k) for k in term_vars(pat) if not isinstance(k, tuple)]
        obs = [impl.to_engine(yp, v, vm) for v in obsv]
        q = yp.query('op%d' % i, obs)
    limit = ev[2] if ev[0] == 'retract' and ev[2] != 'all' else None
    out = []
    for _ in q:
        out.append(impl.observe(obs))
        if limit is not None and len(out) >= limit:
            q.close()
            break
        if len(out) > 20:
            q.close()
            out.append('runaway')
            break
    return out


# a 5th dress-up: the Python API with the query objects of the WHOLE history constructed first (in
# order) and each evaluated at its own position; constructing yp.query(...) without advancing it
# is not an operation: nothing may happen before the first next()
DEFERRED = 'api-queries-constructed-first'


def construct(yp, ev):
    if ev[0] == 'clear':
        return None
    vm = {}
    if ev[0] == 'assert':
        return (yp.query('assert' + ev[1], [impl.to_engine(yp, ev[2], vm)]), [], None)
    pat = ev[1]
    obsv = [('v', k) for k in term_vars(pat) if not isinstance(k, tuple)]
    q = yp.query(ev[0], [impl.to_engine(yp, pat, vm)])
    obs = [impl.to_engine(yp, v, vm) for v in obsv]
    return (q, obs, ev[2] if ev[0] == 'retract' and ev[2] != 'all' else None)


def evaluate(yp, pre):
    if pre is None:
        yp.clear()
        return ['cleared']
    q, obs, limit = pre
    out = []
    for _ in q:
        out.append(impl.observe(obs))
        if limit is not None and len(out) >= limit:
            q.close()
            break
        if len(out) > 20:
            q.close()
            out.append('runaway')
            break
    return out


def do_event_ref(ref, ev):
    if ev[0] == 'clear':
        ref.db = {}
        return ['cleared']
    if ev[0] == 'assert':
        goal, pat = F('assert' + ev[1], ev[2]), ev[2]
        obsv = []
    else:
        goal, pat = F(ev[0], ev[1]), ev[1]
        obsv = [('v', k) for k in term_vars(pat) if not isinstance(k, tuple)]
    m = {}
    goal = ref.rename(goal, m)
    obs = [ref.rename(v, m) for v in obsv]
    limit = ev[2] if ev[0] == 'retract' and ev[2] != 'all' else None
    out = []
    it = ref.iter_env(goal)
    for e in it:
        out.append(canon(obs, e))
        if limit is not None and len(out) >= limit:
            it.close()
            break
    return out


def readback_impl(yp):
    res = []
    for name, n in _keys['now']:
        vs = [yp.variable() for _ in range(n)]
        q = yp.query(name, vs)
        rows = []
        for _ in q:
            rows.append(impl.observe(vs))
            if len(rows) > 30:
                q.close()
                rows.append('runaway')
                break
        res.append(tuple(rows))
    return tuple(res)


def readback_ref(ref):
    res = []
    for name, n in _keys['now']:
        rows = []
        for _, t in ref.db.get((name, n), []):
            rows.append(canon(t[2] if t[0] == 'f' else ()))
        res.append(tuple(rows))
    return tuple(res)


class SubEngine(impl.YP):
    def __init__(self, preload=True):
        super().__init__()
        self.preloaded = preload
        if preload:
            self.assert_fact(self.atom('q'), [self.atom('boot'), self.atom('boot')])
            self.register_function('helper', lambda arg1: iter([False]))


def run_history(dress, init, hist, pytext):
    """-> ('ok', states, steps, changed) | ('violation', sig, detail)"""
    yp = SubEngine() if dress == SUBCLASS else impl.YP()
    if dress == SUBCLASS:
        dress = 'api'
        init = [BOOT_FACT] + list(init)
        ref0 = True
    if dress == HELD:
        yp = HeldAtoms(yp)
        for nm in ATOM_NAMES:
            yp.atom(nm)
    elif dress not in ('api', DEFERRED):
        yp.load_script_from_string(pytext, fn=impl.SCRIPT_FN)
    ref = Ref()
    for t in init:
        if not (t is BOOT_FACT):
            yp.assert_fact(yp.atom(t[1]), [impl.to_engine(yp, x, {}) for x in t[2]])
        ref.assert_fact(t)
    states = []
    steps = 0
    start = readback_ref(ref)
    trace = []
    pre = None
    if dress == DEFERRED:
        try:
            pre = [construct(yp, EVENTS[ei]) for ei in hist]
        except Exception as e:  # noqa: BLE001
            return ('violation', '%s:construct:raises:%s' % (dress, impl.exc_sig(e)), describe(dress, init, [event_name(EVENTS[ei]) for ei in hist]) + 'constructing the query objects raised %r' % (e,))
        try:
            rb = readback_impl(yp)
        except Exception as e:  # noqa: BLE001
            rb = repr(e)
        if rb != start:
            return ('violation', '%s:constructing-a-query-changes-the-store' % dress,
                    describe(dress, init, [event_name(EVENTS[ei]) for ei in hist]) + 'after only CONSTRUCTING the query objects (none advanced) the store reads\n  %s\nbut should still be\n  %s'
                    % (show_store(rb) if not isinstance(rb, str) else rb, show_store(start)))
    for step, ei in enumerate(hist):
        ev = EVENTS[ei]
        trace.append(event_name(ev))
        exp = do_event_ref(ref, ev)
        if ev[0] == 'assert' and pre is not None:
            exp = [()]
        try:
            with watchdog(60):
                got = evaluate(yp, pre[step]) if pre is not None else do_event_impl(yp, ev, ei, dress, pytext)
                steps += 1
        except Hang as e:
            return ('violation', 'hang:' + ev[0], describe(dress, init, trace) + str(e))
        except Exception as e:  # noqa: BLE001
            return ('violation', '%s:%s:raises:%s' % (dress, ev[0], impl.exc_sig(e)),
                    describe(dress, init, trace) + 'step %d raised %r (the model answers %s)' % (step + 1, e, exp))
        if got != exp:
            return ('violation', '%s:%s:answers-differ' % (dress, ev[0]),
                    describe(dress, init, trace) + 'step %d: answers %s, the model gives %s' % (step + 1, got, exp))
        try:
            rb = readback_impl(yp)
        except Exception as e:  # noqa: BLE001
            return ('violation', '%s:readback-raises:%s' % (dress, impl.exc_sig(e)),
                    describe(dress, init, trace) + 'reading the store back after step %d raised %r' % (step + 1, e))
        steps += len(_keys['now'])
        mb = readback_ref(ref)
        if rb != mb:
            return ('violation', '%s:%s:store-differs' % (dress, ev[0]),
                    describe(dress, init, trace) + 'after step %d the store reads\n  %s\nbut the model holds\n  %s'
                    % (step + 1, show_store(rb), show_store(mb)))
        states.append(mb)
    return ('ok', states, steps, states[-1] != start if states else False)


def show_store(rb):
    out = []
    for (name, n), rows in zip(_keys['now'], rb):
        out.append('%s/%d: %s' % (name, n, [r if isinstance(r, str) else tuple(pp(x) if x[0] != 'v' else '_G%s' % x[1] for x in r) for r in rows]))
    return '; '.join(out)


def describe(dress, init, trace):
    return 'dress-up: %s\ninitial store: %s\nhistory: %s\n' % (dress, [show_term(t) for t in init], ' ; '.join(trace))


# ---------------------------------------------------------------- matching = unification
# "a query enumerates the MATCHING facts, retract removes the first MATCHING fact": for every
# ordered pair (t1, t2) of C02's term universe, a store holding the single fact m(t1) is asked
# m(t2), retract(m(t2)) and retractall(m(t2)); the fact matches iff the terms unify (after renaming
# the fact's variables apart), and the bindings of t2's variables are those of the unifier.
def match_universe():
    from . import c02
    return [t for t in c02.universe('quick')]


def rename_apart(t):
    if t[0] == 'v':
        return ('v', ('fact', t[1]))
    if t[0] == 'f':
        return ('f', t[1], tuple(rename_apart(x) for x in t[2]))
    return t


def run_match(spec, acc):
    from ..refprolog import unify_nsto, Cyclic
    _, k, n = spec
    U = match_universe()
    qv = [V('X'), V('Y'), V('Z')]
    for i1, t1 in enumerate(U):
        if i1 % n != k:
            continue
        yp = impl.YP()
        yp.assert_fact(yp.atom('m'), [impl.to_engine(yp, t1, {})])
        f1 = rename_apart(t1)
        for i2, t2 in enumerate(U):
            acc.n['evaluations'] += 1
            try:
                env = unify_nsto(f1, t2, {})
            except Cyclic:
                acc.skipped['cyclic'] += 1
                continue
            acc.n['validated'] += 1
            exp = [] if env is None else [canon(qv, env)]
            vm = {}
            arg = impl.to_engine(yp, t2, vm)
            obs = [impl.to_engine(yp, v, vm) for v in qv]
            label = 'store: the single fact m(%s); ' % pp(t1)
            try:
                got = [impl.observe(obs) for _ in yp.query('m', [arg])]
                gotr = []
                q = yp.query('retract', [yp.functor('m', [arg])])
                for _ in q:
                    gotr.append(impl.observe(obs))
                    q.close()
                    break
                left = len(list(yp.query('m', [yp.variable()])))
            except Exception as e:  # noqa: BLE001
                acc.violation('match:raises:' + impl.exc_sig(e), (9, i1, i2), {'match': [_jm(t1), _jm(t2)]}, label + 'query / retract of m(%s) raised %r' % (pp(t2), e),
                              key='match|%s|%s' % (pp(t1), pp(t2)))
                yp = impl.YP()
                yp.assert_fact(yp.atom('m'), [impl.to_engine(yp, t1, {})])
                continue
            acc.n['transitions'] += 3
            bad = None
            if got != exp:
                bad = ('match:query-differs-from-unification', 'query m(%s) gives %r, unification of the two terms gives %r' % (pp(t2), got, exp))
            elif gotr != exp:
                bad = ('match:retract-differs-from-unification', 'retract(m(%s)) gives %r, unification of the two terms gives %r' % (pp(t2), gotr, exp))
            elif left != (0 if exp else 1):
                bad = ('match:retract-removes-wrong-number', 'after retract(m(%s)) the store holds %d fact(s)' % (pp(t2), left))
            if bad:
                acc.violation(bad[0], (9, i1, i2), {'match': [_jm(t1), _jm(t2)]}, label + bad[1], key='match|%s|%s' % (pp(t1), pp(t2)))
            else:
                acc.outcome(('match', bool(exp)))
                if exp:
                    acc.n['nontrivial'] += 1
            if exp or left != 1:
                # the fact was removed (or something else went wrong): start again from the one-fact store
                yp = impl.YP()
                yp.assert_fact(yp.atom('m'), [impl.to_engine(yp, t1, {})])


# ---------------------------------------------------------------- large stores
# N facts cfg(k_i, v_i) plus ONE catch-all fact cfg(_, default) at the front, in the middle or at the
# end (and a second fact for k1 behind everything), for N around the powers of two up to 130: queries
# with an atom, an unknown atom, a variable as first argument; retract of one key; compared with the
# list model.
LARGE_N = (1, 2, 7, 8, 9, 15, 16, 17, 31, 32, 33, 63, 64, 65, 100, 128, 130)


def large_cases():
    idx = 0
    for n in LARGE_N:
        for where in ('front', 'middle', 'end'):
            facts = [F('cfg', A('k%d' % i), A('v%d' % i)) for i in range(1, n + 1)]
            catch = F('cfg', ('v', ('_', 1)), A('default'))
            pos = {'front': 0, 'middle': n // 2, 'end': n}[where]
            facts = facts[:pos] + [catch] + facts[pos:] + [F('cfg', A('k1'), A('again'))]
            yield idx, n, where, facts
            idx += 1


def run_large(spec, acc):
    from ..diff import Case, account
    _, k, n = spec
    for idx, nf, where, facts in large_cases():
        if idx % n != k:
            continue
        Vq, Kq = V('Vq'), V('Kq')
        qs = [F('cfg', A('k1'), Vq), F('cfg', A('k%d' % nf), Vq), F('cfg', A('k%d' % ((nf + 1) // 2)), Vq), F('cfg', A('nokey'), Vq),
              F('cfg', Kq, A('default')), F('cfg', Kq, A('v%d' % nf)), F('cfg', F('f', Kq), Vq)]
        if nf <= 33:
            qs.append(F('cfg', Kq, Vq))
        prog = [(F('drop', V('K'), V('Val')), call(F('retract', F('cfg', V('K'), V('Val'))))), (F('look', V('K'), V('Val')), call(F('cfg', V('K'), V('Val'))))]
        qs2 = [F('look', A('k1'), Vq), F('drop', A('k1'), Vq), F('cfg', A('k1'), Vq), F('drop', A('nokey'), Vq), F('look', A('k2'), Vq), F('look', A('nokey'), Vq)]
        case = Case([(prog, True, True)], [(f, True) for f in facts], qs + qs2, repeat=1, ref_steps=200000, budget=True)
        res = case.run()
        if res['status'] == 'violation':
            res['sig'] = 'large-store:' + res['sig']
        account(acc, ('large', idx), case, res, key='large|%d|%s' % (nf, where))


def _jm(t):
    from ..diff import _j
    return _j(t)


def plan(tier):
    sh = []
    if tier == 'quick':
        specs = [('full', 3, DRESS), ('core', 4, DRESS), ('qfocus', 4, DRESS), ('reserved', 4, DRESS), ('opnamed', 4, DRESS)]
    else:
        specs = [('full', 4, DRESS), ('core', 5, DRESS), ('core8', 6, ['api']), ('qfocus', 5, DRESS), ('all', 3, DRESS), ('reserved', 5, DRESS), ('opnamed', 5, DRESS)]
    for alpha, depth, dresses in specs:
        if alpha in ('full', 'core'):
            dresses = list(dresses) + [HELD, SUBCLASS]
        if alpha == 'full':
            dresses = list(dresses) + [DEFERRED]
        for dress in dresses:
            for ii in range(len(INITIAL)):
                if alpha == 'core8' and ii >= 2:
                    continue
                if alpha == 'opnamed' and ii >= 2:
                    continue
                if alpha in ('full', 'core') and ii == 3:
                    continue
                if alpha == 'qfocus' and ii not in (0, 3):
                    continue
                if alpha == 'reserved' and ii != 0:
                    continue
                n = 16 if depth >= 4 else 4
                for k in range(n):
                    sh.append((alpha, depth, dress, ii, k, n))
    sh += [('match', k, 32) for k in range(32)]
    sh += [('large', k, 8) for k in range(8)]
    return sh


def alphabet(alpha):
    return {'full': list(range(21)), 'core': CORE, 'core8': CORE8, 'qfocus': [5, 13, 20, 21, 22, 23, 24, 25, 26], 'reserved': RESERVED, 'opnamed': OPNAMED,
            'all': list(range(33))}[alpha]


def run_shard(spec):
    if spec[0] == 'match':
        acc = Acc()
        run_match(spec, acc)
        return acc
    if spec[0] == 'large':
        acc = Acc()
        run_large(spec, acc)
        return acc
    alpha, depth, dress, ii, k, n = spec
    _keys['now'] = KEYS_RESERVED if alpha == 'reserved' else KEYS_OPNAMED if alpha == 'opnamed' else KEYS
    acc = Acc()
    pytext = None
    if dress not in ('api', HELD, DEFERRED, SUBCLASS):
        try:
            pytext = compile_cached(show_program(script_for(dress)))
        except Exception as e:  # noqa: BLE001
            acc.n['evaluations'] += 1
            acc.n['validated'] += 1
            acc.violation('%s:compile:%s' % (dress, impl.exc_sig(e)), (0,), {'dress': dress}, 'compiling the operation script raised %r\n%s' % (e, show_program(script_for(dress))))
            return acc
    al = alphabet(alpha)
    for idx, hist in enumerate(itertools.product(al, repeat=depth)):
        if idx % n != k:
            continue
        if dress in (HELD, SUBCLASS) and CLEAR_INDEX not in hist[:-1]:
            continue
        acc.n['evaluations'] += 1
        acc.n['validated'] += 1
        r = run_history(dress, INITIAL[ii], hist, pytext)
        if r[0] == 'violation':
            case = {'dress': dress, 'init': ii, 'hist': list(hist), 'alpha': alpha}
            acc.violation(r[1], (depth, idx), case, r[2], key='%s|%d|%s' % (dress, ii, list(hist)))
            continue
        _, states, steps, changed = r
        acc.n['transitions'] += steps
        if changed:
            acc.n['nontrivial'] += 1
        for s in states:
            acc.outcome(s)
        if changed and idx % 4001 == 0:
            acc.sample({'dress_up': dress, 'initial': [show_term(t) for t in INITIAL[ii]],
                        'history': [event_name(EVENTS[e]) for e in hist], 'final_store': show_store(states[-1])}, limit=1)
    return acc


def replay(case):
    if 'scripts' in case:
        from ..diff import Case
        res = Case.from_json(case).run()
        return [('large-store:' + res['sig'], res['detail'])] if res['status'] == 'violation' else []
    if 'match' in case:
        from ..diff import _t
        from ..refprolog import unify_nsto
        t1, t2 = _t(case['match'][0]), _t(case['match'][1])
        yp = impl.YP()
        yp.assert_fact(yp.atom('m'), [impl.to_engine(yp, t1, {})])
        env = unify_nsto(rename_apart(t1), t2, {})
        n = len(list(yp.query('m', [impl.to_engine(yp, t2, {})])))
        return [] if n == (0 if env is None else 1) else [('match:query-differs-from-unification', 'fact m(%s), query m(%s): %d answers' % (pp(t1), pp(t2), n))]
    _keys['now'] = KEYS_RESERVED if case.get('alpha') == 'reserved' else KEYS_OPNAMED if case.get('alpha') == 'opnamed' else KEYS
    dress = case['dress']
    pytext = None if dress in ('api', HELD, DEFERRED, SUBCLASS) else impl.compile_text(show_program(script_for(dress)))
    r = run_history(dress, INITIAL[case['init']], case['hist'], pytext)
    if r[0] == 'violation':
        return [(r[1], r[2])]
    return []
