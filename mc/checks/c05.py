"""C05 - cut commits the clause and nothing else."""
from .. import bodies
from . import treecheck

ID = 'C05'
LEVEL = 'model_checking'
RULE = ('every clause body tree with <= N operators from , ; -> \\+ over the 8 leaves '
        '{true fail ! z o(Vi) m(Vi) m(V1) k(Vi)} that contains at least one cut in a transparent '
        'position and none in an opaque one, placed in the context p(..):-BODY. p(9..). '
        'c(..,Z):-m(Z),p(..). plus a dynamic fact p(7..), in 6 context variants: with / without a two-solution goal to '
        'the LEFT of the body x 0, 1 or 2 goals to its RIGHT (thorough, 3 operators: 2 of the 6 variants; and a second '
        'script adding p(6..) without overwrite); compiled, loaded into a fresh engine, query c(A1..Ak,Z) run twice '
        'and compared answer by answer with RefProlog. states = distinct answer sequences; '
        'transitions = next() calls on the real engine; non-trivial = at least one answer')
ASSUMPTIONS = ['RefProlog (mc/refprolog.py) implements standard cut semantics',
               'cuts in the condition of -> or under \\+ are outside the property and skipped',
               'bodies with more operators than the bound are not covered']


def bounds(tier):
    return {'max_operators': 2 if tier == 'quick' else 3, 'leaves': bodies.LEAVES}


def plan(tier):
    maxops = 2 if tier == 'quick' else 3
    return [(k, treecheck.NSHARDS, maxops, tier) for k in range(treecheck.NSHARDS)]


def select(t):
    tr, op = bodies.cut_positions(t)
    if op:
        return 'opaque-cut' if tr or True else None
    if tr == 0:
        return 'other-property'
    return None


def run_shard(spec):
    k, n, maxops, tier = spec
    # context variants: a goal with alternatives to the left of the body (the cut must discard
    # them) and 0, 1 or 2 goals to its right (they must still backtrack)
    full = [dict(prefix=pf, suffix=sf) for pf in (False, True) for sf in (0, 1, 2)]
    if tier == 'quick':
        return treecheck.run_trees((k, n, maxops), select, full)
    acc = treecheck.run_trees((k, n, 2), select, full + [dict(extra_script=True)])
    acc3 = treecheck.run_trees((k, n, 3), lambda t: ('other-property' if bodies.count_ops(t) < 3 else select(t)),
                               [dict(), dict(prefix=True, suffix=2), dict(extra_script=True)])
    acc.merge(acc3)
    return acc


replay = treecheck.replay
