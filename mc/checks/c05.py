"""C05 - cut commits the clause and nothing else."""
from .. import bodies, impl
from . import treecheck

ID = 'C05'
LEVEL = 'model_checking'
RULE = ('(deep cut: 13..20 guard goals o(G) on a body-local variable, a cut, then every body of <= 2 operators with a disjunction / negation / if-then-else; clauses the compiler rejects are skipped) ' 'every clause body tree with <= N operators from , ; -> \\+ over the 8 leaves '
        '{true fail ! z o(Vi) m(Vi) m(V1) k(Vi)} that contains at least one cut in a transparent '
        'position (or a call of k/1, a predicate whose own clause ends in a cut) and none in an opaque one, placed in the context p(..):-BODY. p(9..). '
        'c(..,Z):-m(Z),p(..). plus a dynamic fact p(7..), in 8 context variants (two of them with the clause variables inside a structure w(V1..Vn) that is the clause\'s only argument and is put together before the goals bind them): with / without a two-solution goal to '
        'the LEFT of the body x 0, 1 or 2 goals to its RIGHT (thorough, 3 operators: 2 of the 6 variants; and a second '
        'script adding p(6..) without overwrite); compiled, loaded into a fresh engine, query c(A1..Ak,Z) run twice '
        'and compared answer by answer with RefProlog; plus every body with N+1 operators over the cut-focused leaves {! m(Vi) z} (2 context variants; thorough 1); plus every body with <= 2 operators that contains the leaf t2(V1) - a test on the variable of the first goal that fails for its first solution and succeeds for the second; plus every body with <= 2 operators that calls kk/0, a predicate with one clause ending in a cut whose name is also used at arity 1 by a predicate without cut; plus tables of N clauses that each end in (or start with) a cut, followed by a catch-all clause, for 20 values of N up to 130; plus cuts behind a head that may not match: every pair of the 13 head-argument shapes (repeated variables, constants, structures, lists) x every body of <= 1 operator over {! o m fail} with a cut, followed by a catch-all clause, queried with every pair of 6 argument shapes. states = distinct answer sequences; '
        'transitions = next() calls on the real engine; non-trivial = at least one answer')
ASSUMPTIONS = ['RefProlog (mc/refprolog.py) implements standard cut semantics',
               'cuts in the condition of -> or under \\+ are outside the property and skipped',
               'bodies with more operators than the bound are not covered']


def bounds(tier):
    return {'max_operators': 2 if tier == 'quick' else 3, 'leaves': bodies.LEAVES}


def plan(tier):
    maxops = 2 if tier == 'quick' else 3
    return ([(k, treecheck.NSHARDS, maxops, tier) for k in range(treecheck.NSHARDS)] + [('heads', k, 32, tier) for k in range(32)]
            + [('focus', k, 32, tier) for k in range(32)] + [('wide', k, 8, tier) for k in range(8)] + [('tfocus', k, 16, tier) for k in range(16)] + [('jfocus', k, 16, tier) for k in range(16)] + [('deepcut', k, 16, tier) for k in range(16)])


# ---- deeper bodies over a cut-focused alphabet ----------------------------------------------
# one more operator than the full alphabet allows, over the three leaves that decide what a cut
# prunes: the cut itself, a goal with alternatives, a goal without solution
FOCUS = ['!', 'm', 'z']


def run_tfocus(spec):
    """bodies with the leaf t (a test on the first leaf's variable that fails for its first solution
    and succeeds for the second): <= 2 operators over the 8 leaves + t, at least one t"""
    from ..diff import account
    from ..runner import Acc
    _, k, n, tier = spec
    acc = Acc()
    idx = 0
    for nops in range(1, 3):
        for t in bodies.trees(nops, bodies.LEAVES + ['t']):
            idx += 1
            if idx % n != k:
                continue
            if not has_leaf(t, 't') or t[0] == 'L':
                continue
            first = t
            while first[0] != 'L':
                first = first[1]
            if first[1] not in ('m', 'o', 'k'):
                continue    # the first leaf must own V1
            tr, op = bodies.cut_positions(t)
            if op or not tr:
                continue
            for vi, var in enumerate([dict(), dict(prefix=True, suffix=1)]):
                case = treecheck.tree_case(t, **var)
                res = case.run()
                if res['status'] == 'violation':
                    res['sig'] = 'test-on-condition-variable:' + res['sig']
                account(acc, ('T', idx, vi), case, res, key='%s %r' % (bodies.show_tree(t), sorted(var.items())))
    return acc


def run_jfocus(spec):
    """bodies that call kk/0 (single clause ending in a cut; kk/1 exists without cut): the callee's cut
    is the callee's - <= 2 operators over the 8 leaves + j, at least one j"""
    from ..diff import account
    from ..runner import Acc
    _, k, n, tier = spec
    acc = Acc()
    idx = 0
    for nops in range(0, 3):
        for t in bodies.trees(nops, bodies.LEAVES + ['j']):
            idx += 1
            if idx % n != k:
                continue
            if not has_leaf(t, 'j'):
                continue
            tr, op = bodies.cut_positions(t)
            if op:
                continue
            for vi, var in enumerate([dict(), dict(prefix=True, suffix=1)]):
                case = treecheck.tree_case(t, **var)
                res = case.run()
                if res['status'] == 'violation':
                    res['sig'] = 'callee-with-same-name-at-other-arity:' + res['sig']
                account(acc, ('J', idx, vi), case, res, key='%s %r' % (bodies.show_tree(t), sorted(var.items())))
    return acc


# ---- a cut deep inside a long clause -------------------------------------------------------------------------
# N guard goals o(G) (G local to the body, so that the heads stay narrow), a cut, then every small body with a disjunction / negation / if-then-else: for every
# N from 10 up to the size at which the compiler rejects the clause (such programs are skipped - if the compiler
# accepts them, they mean what they say)
def run_deepcut(spec):
    from ..diff import account
    from ..runner import Acc
    from ..terms import show_program
    _, k, n, tier = spec
    acc = Acc()
    tails = [t for m in (1, 2) for t in bodies.trees(m, ['m', 'z', 'o']) if bodies.ops_used(t) & {';', '->', '\\+'} and not bodies.cut_positions(t)[1]]
    idx = 0
    for ng in range(13, 21):
        for t in tails:
            idx += 1
            if idx % n != k:
                continue
            case = treecheck.tree_case(t, deep_guards=ng)
            try:
                impl.compile_text(case.describe()['scripts'][1]['text'])
            except Exception as e:  # noqa: BLE001
                acc.n['evaluations'] += 1
                acc.skipped['rejected by the compiler (%s)' % type(e).__name__] += 1
                continue
            res = case.run()
            if res['status'] == 'violation':
                res['sig'] = 'deep-cut:' + res['sig']
            account(acc, ('D', idx), case, res, key='deepcut|%d|%s' % (ng, bodies.show_tree(t)))
    return acc


def run_focus(spec):
    from ..diff import account
    from ..runner import Acc
    _, k, n, tier = spec
    acc = Acc()
    nops = 3 if tier == 'quick' else 4
    variants = [dict(), dict(prefix=True, suffix=1), dict(wrapped=True, suffix=1)] if tier == 'quick' else [dict(prefix=True, suffix=1), dict(wrapped=True, suffix=1)]
    for idx, t in enumerate(bodies.trees(nops, FOCUS)):
        if idx % n != k:
            continue
        tr, op = bodies.cut_positions(t)
        if op or not tr:
            continue
        for vi, var in enumerate(variants):
            case = treecheck.tree_case(t, **var)
            res = case.run()
            if res['status'] == 'violation':
                res['sig'] = 'focus:' + res['sig']
            account(acc, ('F', idx, vi), case, res, key='%s %r' % (bodies.show_tree(t), sorted(var.items())))
    return acc


# ---- cuts behind a head that may not match ---------------------------------------------------
# A cut commits only if it is REACHED: the clause that contains it has a head with repeated
# variables, constants or structures, so for some calls the head unification fails and the later
# clauses must still be tried.
def head_cases(tier):
    from . import c01
    hs = c01.head_shapes()
    cut_trees = [t for n in range(2 if tier != 'quick' else 2) for t in bodies.trees(n, ['!', 'o', 'm', 'fail'])
                 if bodies.cut_positions(t)[0] >= 1 and bodies.cut_positions(t)[1] == 0]
    idx = 0
    for h1 in hs:
        for h2 in hs:
            for t in cut_trees:
                yield idx, (h1, h2), t
                idx += 1


def head_case(head, tree):
    from . import c01
    from ..diff import Case
    from ..terms import F, C, V, A
    body, k = bodies.instantiate(tree)
    args = c01.fix_anon(head)
    leafvars = [V('V%d' % i) for i in range(1, k + 1)]
    clause1 = (F('p', *(args + leafvars)), body)
    clause2 = (F('p', ('v', ('_', 7)), ('v', ('_', 8)), *[C(8)] * k), ('true',))
    qshapes = c01.QUERY3
    queries = [F('p', q1, q2, *[V('L%d' % i) for i in range(1, k + 1)]) for q1 in qshapes for q2 in qshapes]
    return Case([(bodies.LEAF_PROGRAM, True, True), ([clause1, clause2], True, False)], [], queries, repeat=1)


def run_heads(spec):
    from ..diff import account
    from ..runner import Acc
    from ..terms import show_clause
    _, k, n, tier = spec
    acc = Acc()
    for idx, head, tree in head_cases(tier):
        if idx % n != k:
            continue
        case = head_case(head, tree)
        res = case.run()
        if res['status'] == 'violation':
            res['sig'] = 'head-guarded-cut:' + res['sig']
        account(acc, ('H', idx), case, res, key=show_clause(case.scripts[1][0][0]))
        if idx % 997 == 0 and res['status'] == 'ok':
            acc.sample({'head_guarded_cut': case.describe()['scripts'][1]['text'], 'queries_compared': res['queries']}, limit=1)
    return acc


def has_leaf(t, kind):
    if t[0] == 'L':
        return t[1] == kind
    return any(has_leaf(c, kind) for c in t[1:])


# ---- wide predicates --------------------------------------------------------------------------
# "the later clauses of the same predicate definition", however many there are: tables of N clauses
# each ending in (or starting with) a cut, followed by a catch-all clause, called through a caller
# that has alternatives of its own
WIDE_N = (1, 2, 3, 5, 8, 15, 16, 17, 31, 32, 33, 34, 63, 64, 65, 66, 100, 128, 129, 130)


def wide_cases():
    from ..diff import Case
    from ..terms import F, A, V, call, CUT
    idx = 0
    for n in WIDE_N:
        for style in ('trailing-cut', 'leading-cut'):
            cl = []
            for i in range(1, n + 1):
                if style == 'trailing-cut':
                    cl.append((F('tab', A('k%d' % i), A('v%d' % i)), CUT))
                else:
                    cl.append((F('tab', A('k%d' % i), V('Val')), (',', CUT, call(F('=', V('Val'), A('v%d' % i))))))
            cl.append((F('tab', ('v', ('_', 1)), A('default')), None))
            cl.append((F('c', V('K'), V('Val'), V('Z')), (',', call(F('m', V('Z'))), call(F('tab', V('K'), V('Val'))))))
            qs = [F('c', A('k1'), V('A'), V('B')), F('c', A('k%d' % n), V('A'), V('B')), F('c', A('k%d' % ((n + 1) // 2)), V('A'), V('B')),
                  F('c', A('nokey'), V('A'), V('B')), F('c', V('Kq'), V('A'), V('B')), F('c', V('Kq'), A('default'), V('B'))]
            yield idx, '%s-%d' % (style, n), Case([(bodies.LEAF_PROGRAM, True, True), (cl, True, False)], [], qs, repeat=1, ref_steps=60000, budget=True)
            idx += 1


def run_wide(spec):
    from ..diff import account
    from ..runner import Acc
    _, k, n, tier = spec
    acc = Acc()
    for idx, name, case in wide_cases():
        if idx % n != k:
            continue
        res = case.run()
        if res['status'] == 'violation':
            res['sig'] = 'wide-predicate:' + res['sig']
        account(acc, ('W', idx), case, res, key=name)
    return acc


def select(t):
    tr, op = bodies.cut_positions(t)
    if op:
        return 'opaque-cut' if tr or True else None
    if tr == 0 and not has_leaf(t, 'k'):
        # no cut of its own and no call of a predicate that cuts (the leaf k: its cut must leave the
        # clauses and alternatives of THIS predicate alone)
        return 'other-property'
    return None


def run_shard(spec):
    if spec[0] == 'heads':
        return run_heads(spec)
    if spec[0] == 'deepcut':
        return run_deepcut(spec)
    if spec[0] == 'focus':
        return run_focus(spec)
    if spec[0] == 'wide':
        return run_wide(spec)
    if spec[0] == 'tfocus':
        return run_tfocus(spec)
    if spec[0] == 'jfocus':
        return run_jfocus(spec)
    k, n, maxops, tier = spec
    # context variants: a goal with alternatives to the left of the body (the cut must discard
    # them) and 0, 1 or 2 goals to its right (they must still backtrack)
    full = [dict(prefix=pf, suffix=sf) for pf in (False, True) for sf in (0, 1, 2)]
    # ... and the clause's variables inside a structure that is the clause's only argument (wrapped)
    full = full + [dict(wrapped=True, suffix=1), dict(wrapped=True, prefix=True)]
    if tier == 'quick':
        return treecheck.run_trees((k, n, maxops), select, full)
    acc = treecheck.run_trees((k, n, 2), select, full + [dict(extra_script=True)])
    acc3 = treecheck.run_trees((k, n, 3), lambda t: ('other-property' if bodies.count_ops(t) < 3 else select(t)),
                               [dict(), dict(prefix=True, suffix=2), dict(extra_script=True)])
    acc.merge(acc3)
    return acc


replay = treecheck.replay
