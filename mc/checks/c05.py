"""C05 - cut commits the clause and nothing else."""
from .. import bodies
from . import treecheck

ID = 'C05'
LEVEL = 'model_checking'
RULE = ('every clause body tree with <= N operators from , ; -> \\+ over the 8 leaves '
        '{true fail ! z o(Vi) m(Vi) m(V1) k(Vi)} that contains at least one cut in a transparent '
        'position and none in an opaque one, placed in the context p(..):-BODY. p(9..). '
        'c(..,Z):-m(Z),p(..). plus a dynamic fact p(7..) (and, thorough, a second script adding '
        'p(6..) without overwrite); compiled, loaded into a fresh engine, query c(A1..Ak,Z) run twice '
        'and compared answer by answer with RefProlog. states = distinct answer sequences; '
        'transitions = next() calls on the real engine; non-trivial = at least one answer')
ASSUMPTIONS = ['RefProlog (mc/refprolog.py) implements standard cut semantics',
               'cuts in the condition of -> or under \\+ are outside the property and skipped',
               'bodies with more operators than the bound are not covered']


def bounds(tier):
    return {'max_operators': 2 if tier == 'quick' else 3, 'leaves': bodies.LEAVES}


def plan(tier):
    maxops = 2 if tier == 'quick' else 3
    return [(k, treecheck.NSHARDS, maxops, tier) for k in range(treecheck.NSHARDS)]


def select(t):
    tr, op = bodies.cut_positions(t)
    if op:
        return 'opaque-cut' if tr or True else None
    if tr == 0:
        return 'other-property'
    return None


def run_shard(spec):
    k, n, maxops, tier = spec
    variants = [dict(continuation=False, extra_script=False)]
    if tier == 'thorough':
        variants.append(dict(continuation=False, extra_script=True))
    return treecheck.run_trees((k, n, maxops), select, variants)


replay = treecheck.replay
