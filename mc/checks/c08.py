"""C08 - call resolution: facts first, exact arity, load order, late binding."""
import itertools
import os

from .. import impl
from ..diff import compile_cached
from ..refprolog import Ref, canon, unify_nsto, Budget
from ..runner import Acc, watchdog, Hang
from ..terms import A, C, F, V, call, conj, TRUE, CUT, show_program, show_term

ID = 'C08'
LEVEL = 'model_checking'
RULE = ('every history of depth <= D over 28 events (re-registration of p (variadic, and arity 1) with ANOTHER function whose answers carry another marker; load of a script S9 that defines predicates named like API functions; load of a self-recursive predicate S7 whose base case comes from another script S8 or from a dynamic fact; 17 + start / step / close of a call p(X) that stays suspended across the other events and must keep the resolution it had when it was made), from the empty engine and from 4 non-initial states (combined definitions, a Python predicate plus a script, facts between two loads, the recursive script), plus a 13-event core one step deeper, plus the full alphabet from the empty engine with every script loaded through load_script_from_file from ONE path that is rewritten before each load, plus the full alphabet (from the state Python p/1 + S1) with every Python predicate registered as a callable OBJECT that is false in a boolean context, plus the full alphabet with the suspended call made as a META-call (call(p(X)) from the empty engine, call(p, X) from the state with facts between two loads) - resolved when made like any call, plus the full alphabet from the empty engine in a process that turns warnings into errors: register_function for p with inferred / explicit (p/2) / variadic '
        'arity and for q/1; (plus loads under every tight stack: from 4 start states each of 4 scripts, overwrite on and off, under every recursion limit from the caller\'s depth to +39: raises and every answer is unchanged, or returns and the answers are the model\'s) (plus the ORDER family: 0..2 facts x 4 shapes of definition - generator function, plain function returning an iterator, plain function returning a generator, callable object - x 5 effects of calling it x 3 registrations x 3 ways of asking x 3 ways of consuming x bound/unbound argument: the facts are answered before the definition is started, a call closed after a fact answer never starts it) load of script S1 (p/1 facts), S2 (p/1 with a cut in its first clause), S3 (p/2 and q(X) :- '
        'p(X)), S6 (names that collide with context keys: once_1/0, once_1/1, p_n/1, call_n/0, foo_1/0 next to foo/1) each '
        'with overwrite on and off; load of a text that is not Python (S4) and of a text that defines p_1 and q_1 and then '
        'raises (S5); assert_fact p(x) and p(x,y); clear. Replayed on a fresh engine with a list-of-definitions model '
        'stepped alongside; after EVERY event the answers of p/0..3, q/1, once_1/0..1, p_n/1, call_n/0, foo/1, foo_1/0 must '
        'equal the model\'s (dynamic facts first, then the definitions for exactly that arity in load order, each with its '
        'own cut scope, variadic only without an exact one), a failing load must leave every answer unchanged, and at '
        'the end no engine API name is callable at any arity 0..2. states = distinct answer tables; transitions = events + '
        'queries on the real engine; non-trivial = some predicate has an answer')
ASSUMPTIONS = ['model: RefProlog definitions table (mc/refprolog.py consult/register) with Python predicates modelled '
               'as callables', 'names of engine API functions are reserved (never callable) as the property states']
X = V('X')


def bounds(tier):
    return {'history_depth_full_alphabet': 3 if tier == 'quick' else 4, 'history_depth_core12': 4 if tier == 'quick' else 5, 'events': len(EVENTS), 'start_states': len(PREFIXES)}


S1 = [(F('p', A('s1a')), TRUE), (F('p', A('s1b')), TRUE)]
S2 = [(F('p', A('s2a')), CUT), (F('p', A('s2b')), TRUE)]
S3 = [(F('p', A('s3'), A('s3')), TRUE), (F('q', X), call(F('p', X)))]
S6 = [(A('once_1'), TRUE), (F('once_1', A('t1')), TRUE), (F('p_n', A('t2')), TRUE), (A('call_n'), TRUE),
      (A('foo_1'), TRUE), (F('foo', A('t3')), TRUE)]
N_, M_ = V('N'), V('M')
# a predicate that calls ITSELF: the recursive call must be resolved like any other call (dynamic
# facts first, then every definition registered for up/2 - also those of other scripts)
S7 = [(F('dec', A('two'), A('one')), TRUE), (F('dec', A('one'), A('zero')), TRUE),
      (F('up', X, N_), conj(call(F('dec', N_, M_)), call(F('up', X, M_))))]
S8 = [(F('up', A('s8'), A('zero')), TRUE)]
S4_PY = 'def p_1(arg1):\n  yield False\n  )( this is not python\n'
S5_PY = 'def p_1(arg1):\n  yield False\ndef q_1(arg1):\n  yield False\nundefined_name_so_this_raises\n'
# predicates named like functions of the engine's API: such names are reserved, the script loads but
# the predicates are never callable (checked at the end of every history, at every arity 0..2)
S9 = [(F('atom', A('s9')), TRUE), (F('variable', A('s9'), A('s9')), TRUE), (A('query'), TRUE)]
SCRIPTS = {'S1': S1, 'S2': S2, 'S3': S3, 'S6': S6, 'S7': S7, 'S8': S8, 'S9': S9}

EVENTS = [('reg', 'p', 1, None), ('reg', 'p', 2, 2), ('reg', 'p', 'n', -1), ('reg', 'q', 1, None),
          ('load', 'S1', True), ('load', 'S1', False), ('load', 'S2', True), ('load', 'S2', False),
          ('load', 'S3', True), ('load', 'S3', False), ('load', 'S6', True), ('load', 'S6', False),
          ('badload', 'S4'), ('badload', 'S5'),
          ('assert', F('p', A('x'))), ('assert', F('p', A('x'), A('y'))), ('clear',),
          # a call p(X) that stays suspended while later events happen (it was resolved when made)
          ('start',), ('step',), ('close',), ('drain',),
          ('load', 'S7', True), ('load', 'S7', False), ('load', 'S8', False), ('assert', F('up', A('x'), A('zero'))),
          ('load', 'S9', False),
          # the same registrations again with ANOTHER function (its answers carry another marker): a call made after
          # a re-registration is answered by the new function, at every arity, also at arities called before
          ('reg', 'p', 'n', -1, 'b'), ('reg', 'p', 1, None, 'b')]
CORE_EVENTS = [0, 2, 4, 5, 7, 9, 13, 14, 16, 17, 18, 20, 26]
# histories also start from non-initial states (event prefixes executed first)
PREFIXES = [(), (5, 7), (0, 5), (4, 14, 5), (21,)]   # nothing | S1+S2 combined | python p/1 + S1 | S1, fact p(x), S1 again
QUERIES = [('p', 0), ('p', 1), ('p', 2), ('p', 3), ('q', 1), ('once_1', 0), ('once_1', 1), ('p_n', 1), ('call_n', 0),
           ('foo', 1), ('foo_1', 0), ('up', 2)]
API_NAMES = ['query', 'atom', 'variable', 'unify', 'functor', 'makelist', 'listpair', 'match_dynamic', 'ATOM_NIL',
             'functor1', 'True', '__builtins__']


def event_name(ev):
    if ev[0] in ('start', 'step', 'close', 'drain'):
        return {'start': 'start a call p(X) and take its first answer', 'step': 'next answer of the suspended call', 'close': 'close the suspended call',
                'drain': 'take all remaining answers of the suspended call'}[ev[0]]
    if ev[0] == 'reg':
        return 'register_function(%r, f%s%s%s)' % (ev[1], ev[2], ev[4] if len(ev) > 4 else '', '' if ev[3] is None else ', arity=%d' % ev[3])
    if ev[0] == 'load':
        return 'load(%s, overwrite=%s)' % (ev[1], ev[2])
    if ev[0] == 'badload':
        return 'load(%s) [must raise]' % ev[1]
    if ev[0] == 'assert':
        return 'assert_fact(%s)' % show_term(ev[1])
    return 'clear()'


def marker(name, n, ver=''):
    return A('py_%s_%s%s' % (name, n, ver))


def py_pred(yp, name, n, ver=''):
    """Python predicate: unifies its FIRST argument (if any) with a marker atom"""
    m = yp.atom('py_%s_%s%s' % (name, n, ver))
    if n == 'n':
        def pred(*args):
            if args:
                for _ in impl.engine.unify(args[0], m):
                    yield False
            else:
                yield False
    elif n == 1:
        def pred(arg1):
            for _ in impl.engine.unify(arg1, m):
                yield False
    else:
        def pred(arg1, arg2):
            for _ in impl.engine.unify(arg1, m):
                yield False
    if CALLABLE['shape'] == 'falsy-object':
        return FalsyCallable(pred, n)
    return pred


# what is registered need not be a function: in the 'all-objects' shards every Python predicate is a
# callable OBJECT that is false in a boolean context (an empty container with a __call__)
CALLABLE = {'shape': 'function'}


class FalsyCallable:
    def __new__(cls, fn, n):
        if n == 'n':
            class Obj(list):
                def __call__(self, *args):
                    return fn(*args)
        elif n == 1:
            class Obj(list):
                def __call__(self, arg1):
                    return fn(arg1)
        else:
            class Obj(list):
                def __call__(self, arg1, arg2):
                    return fn(arg1, arg2)
        return Obj()


def py_model(name, n, ver=''):
    m = marker(name, n, ver)

    def d(ref, args, env):
        if n != 'n' and len(args) != n:
            return
        if args:
            e = unify_nsto(args[0], m, env)
            if e is not None:
                yield e
        else:
            yield env
    return d


# how scripts reach the engine: load_script_from_string, or load_script_from_file with every script
# of the whole shard written to ONE path in turn (what a file holds when it is loaded is what counts)
LOAD_PATH = None
START_VIA = {'how': 'query'}


def _load(yp, text, overwrite):
    if LOAD_PATH is None:
        yp.load_script_from_string(text, fn=impl.SCRIPT_FN, overwrite=overwrite)
    else:
        with open(LOAD_PATH, 'w') as f:
            f.write(text)
        yp.load_script_from_file(LOAD_PATH, overwrite=overwrite)


def do_impl(yp, ev, texts):
    if ev[0] == 'reg':
        fn = py_pred(yp, ev[1], ev[2], *ev[4:])
        if ev[3] is None:
            yp.register_function(ev[1], fn)
        else:
            yp.register_function(ev[1], fn, arity=ev[3])
    elif ev[0] == 'load':
        _load(yp, texts[ev[1]], ev[2])
    elif ev[0] == 'badload':
        try:
            _load(yp, S4_PY if ev[1] == 'S4' else S5_PY, True)
        except Exception:  # noqa: BLE001 - a failing load is expected to raise
            return 'raised'
        return 'did-not-raise'
    elif ev[0] == 'assert':
        t = ev[1]
        yp.assert_fact(yp.atom(t[1]), [impl.to_engine(yp, x, {}) for x in t[2]])
    else:
        yp.clear()
    return None


def do_ref(ref, ev):
    if ev[0] == 'reg':
        ref.register((ev[1], ev[2]), py_model(ev[1], ev[2], *ev[4:]))
    elif ev[0] == 'load':
        ref.consult(SCRIPTS[ev[1]], ev[2])
    elif ev[0] == 'badload':
        return 'raised'
    elif ev[0] == 'assert':
        ref.assert_fact(ev[1])
    else:
        ref.clear()
    return None


def table_impl(yp, queries):
    out = []
    for name, n in queries:
        vs = [yp.variable() for _ in range(n)]
        rows = []
        q = yp.query(name, vs)
        for _ in q:
            rows.append(impl.observe(vs))
            if len(rows) > 40:
                q.close()
                rows.append('runaway')
                break
        out.append(tuple(rows))
    return tuple(out)


def table_ref(ref, queries):
    out = []
    for name, n in queries:
        vs = [ref.fresh() for _ in range(n)]
        goal = ('f', name, tuple(vs)) if n else ('a', name)
        rows = []
        ref.steps = 0
        for e in ref.iter_env(goal):
            rows.append(canon(vs, e))
            if len(rows) > 40:
                rows.append('runaway')   # same cap as table_impl: only the first 41 answers are compared
                break
        out.append(tuple(rows))
    return tuple(out)


def show_table(tb, queries=QUERIES):
    return '; '.join('%s/%d: %s' % (nm, n, [tuple(x[1] if x[0] != 'v' else '_' for x in r) if not isinstance(r, str) else r for r in rows])
                     for (nm, n), rows in zip(queries, tb) if rows)


def run_history(hist, texts):
    yp = impl.YP()
    ref = Ref(200000, 120)
    trace = []
    states = []
    steps = 0
    prev = None
    slot = None      # (impl generator, impl variable, ref generator, ref variable)
    for n, ei in enumerate(hist):
        ev = EVENTS[ei]
        if ev[0] == 'start' and slot is not None:
            return ('disabled',)
        if ev[0] in ('step', 'close', 'drain') and slot is None:
            return ('disabled',)
        trace.append(event_name(ev))
        label = 'history: %s\n' % ' ; '.join(trace)
        if ev[0] in ('start', 'step', 'close', 'drain'):
            try:
                with watchdog(60):
                    if ev[0] == 'drain':
                        got, exp = [], []
                        for _ in slot[0]:
                            got.append(impl.observe([slot[1]]))
                            if len(got) > 40:
                                break
                        for e in slot[2]:
                            exp.append(canon([slot[3]], e))
                        slot = None
                        steps += 1
                        if got != exp:
                            return ('violation', 'suspended-call:answers-differ', label + 'event %d: the remaining answers of the suspended call p(X) are %r; resolved when it was made they are %r' % (n + 1, got, exp))
                        continue
                    if ev[0] == 'start':
                        iv = yp.variable()
                        rv = ref.fresh()
                        if START_VIA['how'] == 'call/2':
                            # the suspended call is a META-call: call(p, X) is resolved like p(X), when it is made
                            iq = yp.query('call', [yp.atom('p'), iv])
                        elif START_VIA['how'] == 'call/1':
                            iq = yp.query('call', [yp.functor('p', [iv])])
                        else:
                            iq = yp.query('p', [iv])
                        slot = (iq, iv, ref.iter_env(('f', 'p', (rv,))), rv)
                    if ev[0] == 'close':
                        slot[0].close()
                        slot[2].close()
                        slot = None
                        got = exp = 'closed'
                    else:
                        try:
                            next(slot[0])
                            got = impl.observe([slot[1]])
                        except StopIteration:
                            got = 'exhausted'
                        try:
                            e = next(slot[2])
                            exp = canon([slot[3]], e)
                        except StopIteration:
                            exp = 'exhausted'
                        if got == 'exhausted' or exp == 'exhausted':
                            if got == exp:
                                slot = None
            except Budget:
                return ('unspecified', 'reference budget')
            except Hang as e:
                return ('violation', 'hang', label + str(e))
            except Exception as e:  # noqa: BLE001
                return ('violation', 'suspended-call:raises:%s' % impl.exc_sig(e), label + 'event %d raised %r' % (n + 1, e))
            steps += 1
            if got != exp:
                return ('violation', 'suspended-call:answers-differ', label + 'event %d: the suspended call p(X) gives %r; resolved when it was made it gives %r' % (n + 1, got, exp))
            continue
        exp = do_ref(ref, ev)
        try:
            with watchdog(60):
                got = do_impl(yp, ev, texts)
                tb = table_impl(yp, QUERIES)
        except Hang as e:
            return ('violation', 'hang', label + str(e))
        except Exception as e:  # noqa: BLE001
            return ('violation', '%s:raises:%s' % (ev[0], impl.exc_sig(e)), label + 'event %d raised %r' % (n + 1, e))
        steps += 1 + len(QUERIES)
        try:
            mt = table_ref(ref, QUERIES)
        except Budget:
            # the model did not finish within its own step budget: the history is not judged further
            return ('unspecified', 'reference budget')
        if ev[0] == 'badload' and got != 'raised':
            # the property only speaks about loads that RAISE (they must leave the engine
            # unchanged); what a load that swallows the error of its script should leave behind
            # is not specified, so the history ends here and is not judged further
            return ('unspecified', 'load of a failing script did not raise')
        if tb != mt:
            sig = '%s:answers-differ' % ev[0]
            return ('violation', sig, label + 'after event %d:\n  observed: %s\n  model:    %s' % (n + 1, show_table(tb), show_table(mt)))
        states.append(mt)
    # reserved names
    apiq = [(nm, k) for nm in API_NAMES for k in range(3)]
    try:
        at = table_impl(yp, apiq)
    except Exception as e:  # noqa: BLE001
        return ('violation', 'api-name-query-raises:' + impl.exc_sig(e), 'history: %s\nquerying an API name raised %r' % (' ; '.join(trace), e))
    steps += len(apiq)
    if any(at):
        return ('violation', 'api-name-callable', 'history: %s\nan engine API name answered as a predicate: %s' % (' ; '.join(trace), show_table(at, apiq)))
    return ('ok', states, steps, any(any(t) for t in states))


# ---- order of effects: the facts are answered BEFORE a definition is started -------------------------
# A definition need not be a generator function: a plain function (or a callable object) does its work
# when it is CALLED and returns a cursor over its answers.  What it does when called (here: log the
# start; assert / retract facts of the called predicate or of another one) is then observable, and the
# property fixes when that happens: after the facts that existed when the call was made have been answered.
ORDER_SHAPES = ['generator', 'plain-function-returning-iterator', 'plain-function-returning-generator', 'callable-object']
ORDER_EFFECTS = ['none', 'assertz-own', 'asserta-own', 'retractall-own', 'assertz-other']
ORDER_REG = [('inferred', None), ('explicit', 1), ('variadic', -1)]
ORDER_VIA = ['api', 'script', 'call/1']
ORDER_CONSUME = ['all', 'first-answer-then-close', 'twice']
ORDER_CALLER = [(F('c', X), call(F('p', X)))]


def order_cases():
    return list(itertools.product(range(3), range(len(ORDER_SHAPES)), range(len(ORDER_EFFECTS)), range(len(ORDER_REG)), range(len(ORDER_VIA)), range(len(ORDER_CONSUME)), (0, 1)))


def order_case(case, caller_text):
    """-> ('ok', log) | ('violation', sig, detail)"""
    nfacts, shi, efi, rgi, vii, coi, bound = case
    shape, effect, (regname, arity), via, consume = ORDER_SHAPES[shi], ORDER_EFFECTS[efi], ORDER_REG[rgi], ORDER_VIA[vii], ORDER_CONSUME[coi]
    yp = impl.YP()
    log = []
    marker_atom = yp.atom('from_definition')

    def answers(arg1):
        for _ in impl.engine.unify(arg1, marker_atom):
            yield False

    def started():
        log.append('definition started')
        if effect == 'assertz-own':
            yp.assert_fact(yp.atom('p'), [yp.atom('added')])
        elif effect == 'asserta-own':
            for _ in yp.query('asserta', [yp.functor('p', [yp.atom('added')])]):
                pass
        elif effect == 'retractall-own':
            for _ in yp.query('retractall', [yp.functor('p', [yp.variable()])]):
                pass
        elif effect == 'assertz-other':
            yp.assert_fact(yp.atom('other'), [yp.atom('added')])

    binds = shape != 'plain-function-returning-iterator'
    if shape == 'generator':
        def body(arg1):
            started()
            yield from answers(arg1)
    elif shape == 'plain-function-returning-iterator':
        def body(arg1):
            started()
            return iter([False])        # one answer that binds nothing
    else:
        def body(arg1):
            started()
            return answers(arg1)
    if shape == 'callable-object':
        if arity == -1:
            class Obj:
                def __call__(self, *args):
                    return body(*args)
        else:
            class Obj:
                def __call__(self, arg1):
                    return body(arg1)
        fn = Obj()
    elif arity == -1:
        if shape == 'generator':
            def fn(*args):
                started()
                yield from answers(args[0])
        else:
            def fn(*args):
                return body(*args)
    else:
        fn = body
    if arity is None:
        yp.register_function('p', fn)
    else:
        yp.register_function('p', fn, arity)
    yp.load_script_from_string(caller_text, overwrite=False)
    cur = ['f%d' % i for i in range(nfacts)]
    for f in cur:
        yp.assert_fact(yp.atom('p'), [yp.atom(f)])

    def after_effect(fs):
        if effect == 'assertz-own':
            return fs + ['added']
        if effect == 'asserta-own':
            return ['added'] + fs
        if effect == 'retractall-own':
            return []
        return fs

    def name_of(arg):
        v = impl.engine.get_value(arg)
        return '_' if isinstance(v, impl.Variable) else v.name()

    want = []
    for _round in range(2 if consume == 'twice' else 1):
        arg = yp.atom('f0') if bound else yp.variable()
        if via == 'api':
            q = yp.query('p', [arg])
        elif via == 'script':
            q = yp.query('c', [arg])
        else:
            q = yp.query('call', [yp.functor('p', [arg])])
        matching = [f for f in cur if not bound or f == 'f0']
        from_def = ['definition started'] + (['answer ' + ('from_definition' if binds else name_of(arg))] if (not bound or not binds) else [])
        if consume == 'first-answer-then-close':
            it = iter(q)
            try:
                next(it)
                log.append('answer ' + name_of(arg))
            except StopIteration:
                pass
            it.close()
            if matching:
                want += ['answer ' + matching[0]]       # the definition is never started
            else:
                want += from_def
                cur = after_effect(cur)
        else:
            for _a in q:
                log.append('answer ' + name_of(arg))
            want += ['answer ' + f for f in matching] + from_def
            cur = after_effect(cur)
    desc = ('%d fact(s) p(f0).. asserted; p/1 registered (%s arity) as a %s whose call has the effect %r; p(%s) asked through %s, consumed: %s'
            % (nfacts, regname, shape, effect, 'f0' if bound else 'X', via, consume))
    if log != want:
        early = 'definition started' in log and 'definition started' in want and log.index('definition started') < want.index('definition started')
        sig = 'order:definition-started-before-the-facts-were-answered' if early else 'order:definition-started-although-never-reached' if 'definition started' in log and 'definition started' not in want else 'order:events-differ'
        return ('violation', sig, '%s\nevents observed: %s\nevents expected: %s\n(the facts that exist when the call is made are answered in order, and only then is the definition started)' % (desc, log, want))
    return ('ok', tuple(log))


# ---- a load under every tight stack: all of the script or nothing ----------------------------------------------
# From 4 start states, each script (overwrite on and off) is loaded under every recursion limit from the
# caller's depth upwards: the load either raises - then EVERY answer is what it was before - or it returns -
# then the answers are those of the model after the load.  (S10 defines a NEW predicate before one that exists.)
S10 = [(F('fresh', A('s10')), TRUE), (F('p', A('s10')), TRUE), (F('q', A('s10')), TRUE)]
LIMIT_SCRIPTS = ['S1', 'S2', 'S3', 'S10']


def load_limit_cases():
    idx = 0
    for pi in (0, 1, 2, 3):
        for sname in LIMIT_SCRIPTS:
            for overwrite in (True, False):
                yield idx, (pi, sname, overwrite)
                idx += 1


def check_load_limits(case, texts):
    """-> list of violations (sig, detail), number of limits tried"""
    import sys
    pi, sname, overwrite = case
    queries = QUERIES + [('fresh', 1)]

    def build():
        yp = impl.YP()
        ref = Ref()
        for ei in PREFIXES[pi]:
            ev = EVENTS[ei]
            do_impl(yp, ev, texts)
            do_ref(ref, ev)
        return yp, ref
    yp, ref = build()
    before = table_ref(ref, queries)
    if sname == 'S10':
        ref.consult(S10, overwrite)
    else:
        do_ref(ref, ('load', sname, overwrite))
    after = table_ref(ref, queries)
    depth = 0
    f = sys._getframe()
    while f is not None:
        depth += 1
        f = f.f_back
    old = sys.getrecursionlimit()
    bad = []
    tried = 0
    for lim in range(depth + 1, depth + 40):
        yp, _ = build()
        raised = None
        try:
            sys.setrecursionlimit(lim)
            yp.load_script_from_string(texts[sname], fn=impl.SCRIPT_FN, overwrite=overwrite)
        except RecursionError as e:
            raised = e
        except Exception as e:  # noqa: BLE001
            raised = e
        finally:
            sys.setrecursionlimit(old)
        tried += 1
        got = table_impl(yp, queries)
        want = before if raised is not None else after
        if got != want:
            what = 'prefix %s, then load(%s, overwrite=%s) under recursion limit %d (caller depth %d): ' % ([event_name(EVENTS[e]) for e in PREFIXES[pi]], sname, overwrite, lim, depth)
            if raised is not None:
                bad.append(('load-raised-but-changed-the-engine', what + 'the load raised %r, yet the answers changed from\n  %s\nto\n  %s' % (raised, show_table(before, queries), show_table(got, queries))))
            else:
                bad.append(('load-under-tight-stack:answers-differ', what + 'the load returned; answers\n  %s\nthe model gives\n  %s' % (show_table(got, queries), show_table(after, queries))))
            break
    return bad, tried


def compile_scripts():
    d = {k: compile_cached(show_program(v)) for k, v in SCRIPTS.items()}
    d['S10'] = compile_cached(show_program(S10))
    return d


def plan(tier):
    # full alphabet to depth 3 (T 4) from every start state; a core of 12 events one step deeper
    # from the empty engine
    d = 3 if tier == 'quick' else 4
    n = 16 if tier == 'quick' else 128
    sh = []
    for pi in range(len(PREFIXES)):
        sh += [(d, k, n, pi, 'all') for k in range(n)]
    sh += [(d + 1, k, 2 * n, 0, 'core') for k in range(2 * n)]
    sh += [(d, k, n, 0, 'all-file') for k in range(n)]
    sh += [(d, k, n, 2, 'all-objects') for k in range(n)]
    sh += [(d, k, n, 0, 'all-warnings-are-errors') for k in range(n)]
    sh += [(0, k, 4, 0, 'order') for k in range(4)]
    sh += [(0, k, 8, 0, 'loadlimits') for k in range(8)]
    sh += [(d, k, n, 3, 'all-call/2') for k in range(n)] + [(d, k, n, 0, 'all-call/1') for k in range(n)]
    return sh


def run_shard(spec):
    global LOAD_PATH
    if spec[4] == 'loadlimits':
        acc = Acc()
        texts = compile_scripts()
        for idx, case in load_limit_cases():
            if idx % spec[2] != spec[1]:
                continue
            bad, tried = check_load_limits(case, texts)
            acc.n['evaluations'] += tried
            acc.n['validated'] += tried
            acc.n['nontrivial'] += tried
            acc.n['transitions'] += tried * 2
            for sig, detail in bad:
                acc.violation(sig, (0, 8, idx), {'load_limits': list(case)}, detail, key='loadlimits' + str(list(case)))
            if not bad:
                acc.outcome(('loadlimits', case[1], case[2]))
        return acc
    if spec[4] == 'order':
        acc = Acc()
        caller = compile_cached(show_program(ORDER_CALLER))
        for idx, case in enumerate(order_cases()):
            if idx % spec[2] != spec[1]:
                continue
            acc.n['evaluations'] += 1
            acc.n['validated'] += 1
            acc.n['nontrivial'] += 1
            r = order_case(case, caller)
            if r[0] == 'violation':
                acc.violation(r[1], (0, 9, idx), {'order_case': list(case)}, r[2], key='order' + str(list(case)))
                continue
            acc.n['transitions'] += len(r[1]) + 2
            acc.outcome(r[1])
        return acc
    if spec[4].startswith('all-call'):
        LOAD_PATH = None
        START_VIA['how'] = spec[4][4:]
        try:
            return _run_shard(spec[:4] + ('all',), via=spec[4][4:])
        finally:
            START_VIA['how'] = 'query'
    if spec[4] == 'all-warnings-are-errors':
        # the process runs with warnings turned into errors (python -W error, pytest filterwarnings=error):
        # nothing the engine does on these histories is worth a warning, an unknown predicate simply fails
        import warnings
        LOAD_PATH = None
        with warnings.catch_warnings():
            warnings.simplefilter('error')
            return _run_shard(spec[:4] + ('all',), via='warnings')
    if spec[4] == 'all-objects':
        LOAD_PATH = None
        CALLABLE['shape'] = 'falsy-object'
        try:
            return _run_shard(spec[:4] + ('all',), via='objects')
        finally:
            CALLABLE['shape'] = 'function'
    if spec[4] != 'all-file':
        LOAD_PATH = None
        return _run_shard(spec)
    import shutil
    import tempfile
    d = tempfile.mkdtemp(prefix='verif-c08-')
    try:
        LOAD_PATH = os.path.join(d, 'script.py')
        return _run_shard(spec[:4] + ('all',), via='file')
    finally:
        LOAD_PATH = None
        shutil.rmtree(d, ignore_errors=True)


def _run_shard(spec, via=None):
    depth, k, n, pi, alpha = spec
    prefix = PREFIXES[pi]
    alphabet = list(range(len(EVENTS))) if alpha == 'all' else CORE_EVENTS
    acc = Acc()
    try:
        texts = compile_scripts()
    except Exception as e:  # noqa: BLE001
        acc.n['evaluations'] += 1
        acc.n['validated'] += 1
        acc.violation('compile:' + impl.exc_sig(e), (0,), {'hist': []}, 'compiling the scripts raised %r' % (e,))
        return acc
    for idx, hist in enumerate(itertools.product(alphabet, repeat=depth)):
        if idx % n != k:
            continue
        acc.n['evaluations'] += 1
        acc.n['validated'] += 1
        hist = prefix + hist
        r = run_history(hist, texts)
        if r[0] == 'disabled':
            acc.n['evaluations'] -= 1
            acc.n['validated'] -= 1
            acc.n['disabled_histories'] += 1
            continue
        if r[0] == 'unspecified':
            acc.skipped[r[1]] += 1
            continue
        if r[0] == 'violation':
            acc.violation(({'file': 'file-loads:', 'objects': 'callable-objects:', 'warnings': 'warnings-are-errors:', 'call/1': 'suspended-meta-call:', 'call/2': 'suspended-meta-call:'}.get(via, '')) + r[1], (len(hist), pi, idx), {'hist': list(hist), 'via': via}, r[2], key=(via or '') + str(list(hist)))
            continue
        _, states, steps, nontrivial = r
        acc.n['transitions'] += steps
        if nontrivial:
            acc.n['nontrivial'] += 1
        for s in states:
            acc.outcome(s)
        if nontrivial and idx % 1013 == 0:
            acc.sample({'history': [event_name(EVENTS[e]) for e in hist], 'final_answers': show_table(states[-1])}, limit=1)
    return acc


def replay(case):
    global LOAD_PATH
    if 'load_limits' in case:
        bad, _ = check_load_limits(tuple(case['load_limits']), compile_scripts())
        return bad
    if 'order_case' in case:
        r = order_case(tuple(case['order_case']), compile_cached(show_program(ORDER_CALLER)))
        return [(r[1], r[2])] if r[0] == 'violation' else []
    if case.get('via') == 'warnings':
        import warnings
        with warnings.catch_warnings():
            warnings.simplefilter('error')
            r = run_history(tuple(case['hist']), compile_scripts())
        return [('warnings-are-errors:' + r[1], r[2])] if r[0] == 'violation' else []
    if case.get('via') in ('call/1', 'call/2'):
        START_VIA['how'] = case['via']
        try:
            r = run_history(tuple(case['hist']), compile_scripts())
        finally:
            START_VIA['how'] = 'query'
        return [('suspended-meta-call:' + r[1], r[2])] if r[0] == 'violation' else []
    if case.get('via') == 'objects':
        CALLABLE['shape'] = 'falsy-object'
        try:
            r = run_history(tuple(case['hist']), compile_scripts())
        finally:
            CALLABLE['shape'] = 'function'
        return [('callable-objects:' + r[1], r[2])] if r[0] == 'violation' else []
    if case.get('via'):
        import shutil
        import tempfile
        d = tempfile.mkdtemp(prefix='verif-c08-')
        try:
            LOAD_PATH = os.path.join(d, 'script.py')
            r = run_history(tuple(case['hist']), compile_scripts())
        finally:
            LOAD_PATH = None
            shutil.rmtree(d, ignore_errors=True)
        return [('file-loads:' + r[1], r[2])] if r[0] == 'violation' else []
    r = run_history(tuple(case['hist']), compile_scripts())
    if r[0] == 'violation':
        return [(r[1], r[2])]
    return []
