"""C18 - compilation is a deterministic function of the source text."""
import hashlib
import itertools
import json
import os
import subprocess
import sys

from .. import bodies, impl
from ..runner import Acc, VERIF
from ..terms import show_program, F, V
from . import c10

ID = 'C18'
LEVEL = 'model_checking'
RULE = ('(g) every rejected program of the corpus offered three times while the caller keeps the exception objects: three rejections of the same kind; (f) capacity: in a fresh process a filler with exactly n distinct variable names (n from 1 below to 1 above each of 11 typical capacities 64..8192 [quick ..4096], sharing none / the first / the first two .. of the target\'s names), then each of 4 targets: the same text as in a fresh process; (e) stack headroom: every corpus program compiled under every recursion limit from 3 below to 45 above the least limit under which it compiles at all (found by bisection): each compilation raises or returns exactly the ordinary output. corpus: every clause shape with 0..3 variables that occur only inside head structures x 0..4 body-only variables '
        'x 0..2 anonymous variables, heads in which 2..5 variables occur twice, the body trees with <= N operators in the C05 context, the repository\'s sample files, [for (b) and (d) also the body trees with N+1 operators over {! o fail}], and 11 programs that are rejected at different stages (syntax, leftover input, goal not callable, head name, too large, unsupported term - also in the middle of a clause whose variables have the names other programs use). '
        '(a) environment exploration of set-iteration order: the names set/frozenset are shadowed in the compiler modules by '
        'an order-controlled stand-in; every call is a choice point and EVERY permutation of its elements is explored at '
        'one call site (thorough: at every pair of call sites), all other sites keeping insertion order - the output must '
        'be byte-identical to the default-order output; (b) the whole corpus is compiled in fresh processes under '
        'PYTHONHASHSEED 0..5 (thorough 0..15) and the per-program digests must agree; the programs with non-ASCII text (string API and file API), 40 others and 6 with debug_filename on and an absolute source path also in fresh processes with other environments (C locale without UTF-8 mode, UTF-8 mode, another working directory and time zone, python -O); (c) in one process every ordered pair '
        'of corpus programs (from a subset, incl. the same text under other options: debug_filename with different file names, the file API and the library\'s default options object, CompilerContext instances created per call with the switches on / all off) is compiled before the target and the target\'s output compared with its output '
        'in a fresh state; (d) the whole corpus is compiled in one process in 3 orders (forward, reverse, interleaved: every program after every other one; every third program also with the tracing options on, forward and reverse) and every output compared with the output of a child forked from a process that has never compiled anything. states = distinct (program, output digest) pairs; transitions = compiler invocations; non-trivial '
        '= the program has >= 2 fresh variables or a choice point was explored')
ASSUMPTIONS = ['nondeterminism that does not flow through a call of set()/frozenset() by name (set displays, id() ordering, '
               'dict order of unhashable keys) is covered only by the process/seed runs (b) and the history runs (c)']
MODULES = ['yldprolog.yp_generator', 'yldprolog.yp_prolog_visitor', 'yldprolog.compiler']


def bounds(tier):
    return {'hash_seeds': 6 if tier == 'quick' else 16, 'set_order_deviations': 1 if tier == 'quick' else 2,
            'tree_operators': 1 if tier == 'quick' else 2}


def corpus(tier):
    out = []
    for nh in range(4):
        for nb in range(5):
            for na in range(3):
                hv = ['H%d' % i for i in range(nh)]
                bv = ['B%d' % i for i in range(nb)]
                head = 'p(X, f(%s)%s)' % (','.join(hv), ''.join(', _' for _ in range(na))) if hv or na else 'p(X)'
                if not hv and na:
                    head = 'p(X%s)' % ''.join(', _' for _ in range(na))
                body = 'q(X%s)' % ''.join(',' + v for v in bv + hv)
                if nb >= 2:
                    body += ', r(%s, _)' % ','.join(reversed(bv))
                out.append(('vars-%d-%d-%d' % (nh, nb, na), '%s :- %s.\n' % (head, body)))
    # heads in which several variables occur more than once as direct arguments
    names = ['A', 'B', 'Cc', 'Dd', 'Count', 'Xs']
    for nv in (2, 3, 4, 5):
        vs = names[:nv]
        out.append(('repeat-%d' % nv, 'p(%s) :- q(%s).\n' % (','.join(vs + vs), ','.join(reversed(vs)))))
        out.append(('repeat-rev-%d' % nv, 'p(%s).\n' % ','.join(vs + list(reversed(vs)))))
        out.append(('repeat-nested-%d' % nv, 'p(%s, f(%s)) :- r(%s).\n' % (','.join(vs), ','.join(vs), ','.join(vs))))
    for n in range(0, (1 if tier == 'quick' else 2) + 1):
        for i, t in enumerate(bodies.trees(n)):
            body, k = bodies.instantiate(t)
            prog, _ = bodies.context_program(body, k)
            out.append(('tree-%d-%d' % (n, i), show_program(prog)))
    for fn, text in c10.sample_files():
        out.append((fn, text))
    # programs that are rejected at different stages (each after some anonymous / fresh variables):
    # a rejected compilation must not leave anything behind for the next one
    out += [('fail-syntax', 'ok(_, X) :- q(X, _).\nfoo(_, a\n'),
            ('fail-goal-not-callable', 'a(_, _) :- q(_), X.\n'),
            ('fail-goal-number', 'b(_) :- q(_, Y), 3.\n'),
            ('fail-head-name', "c(_).\n'x y'(_, _).\n"),
            ('fail-too-large', 'd(_, _) :- %s.\n' % ', '.join('g%d(_)' % i for i in range(25))),
            ('fail-unsupported-term', 'e(_, _, a/1).\n'),
            ('fail-head-true', 'f(_).\ntrue.\n'),
            # input left over after a complete clause (rejected by the check that follows parsing)
            ('fail-leftover', 'p(a). . p(b).\n'), ('fail-leftover-paren', 'p(_, X) :- q(X). ) r(b).\n'),
            # rejected in the middle of a clause whose variables have the names the other programs use
            ('fail-named-variables', 'r(X) :- q(B0, B1), s(H0, foo/2).\n'), ('fail-named-variables-2', 'p(X, Y) :- q(Y, B0, foo/2).\n')]
    return out


def corpus_wide(tier):
    """the corpus of the process/seed runs (b) and the sweeps (d): additionally every body with one
    more operator over a small alphabet (the set-order exploration (a) is too slow for these)"""
    out = corpus(tier)
    n = 2 if tier == 'quick' else 3
    for i, t in enumerate(bodies.trees(n, ['!', 'o', 'fail'] if tier == 'quick' else ['!', 'o'])):
        body, k = bodies.instantiate(t)
        prog, _ = bodies.context_program(body, k)
        out.append(('focus-tree-%d-%d' % (n, i), show_program(prog)))
    return out


def digest(s):
    return hashlib.sha256(s.encode('utf8', 'surrogatepass')).hexdigest()[:20]


def compile_or_exc(text, opts=None):
    """opts: None (all debug options off) or a source-file name: debug_filename on with that name
    (the output then starts with a comment naming the file - part of the options, so part of the
    function's argument)"""
    try:
        if opts is None:
            return impl.compile_text(text)
        if opts == 'file-default-options':
            # the file API with the library's own default options object
            import tempfile
            d = tempfile.mkdtemp(prefix='verif-c18-')
            try:
                path = os.path.join(d, 'prog.prolog')
                with open(path, 'w', encoding='utf8', newline='') as f:
                    f.write(text)
                return impl.compiler.compile_prolog_from_file(path)
            finally:
                import shutil
                shutil.rmtree(d, ignore_errors=True)
        if opts == 'abs-filename':
            # debug_filename on, the source named by an ABSOLUTE path (what is printed about the
            # source must not depend on where the process happens to run)
            class ACtx(impl.Ctx):
                debug_filename = True
                current_source_file = '/srv/project/src/prog.pl'
            return impl.compiler.compile_prolog_from_string(text, ACtx)
        if opts in ('debug-parser', 'debug-all'):
            # tracing on (the trace goes to a discarded stream; the RETURNED code is what is compared)
            import io

            class DCtx(impl.Ctx):
                debug_parser = True
                debug_generator = opts == 'debug-all'
                debug_filename = opts == 'debug-all'
                current_source_file = 'traced.pl'
                outf = io.StringIO()
            return impl.compiler.compile_prolog_from_string(text, DCtx)
        if opts == 'string-default-options':
            return impl.compiler.compile_prolog_from_string(text)
        if opts == 'context-instance-all-off':
            # a NEW options object per call with every switch off (it usually lands at the address of an
            # options object that died a moment ago)
            o = impl.compiler.CompilerContext()
            return impl.compiler.compile_prolog_from_string(text, o)
        if opts == 'context-instance-generator-debug':
            import io
            o = impl.compiler.CompilerContext()
            o.debug_generator = True
            o.debug_filename = True
            o.current_source_file = 'inst.pl'
            o.outf = io.StringIO()
            return impl.compiler.compile_prolog_from_string(text, o)
        if opts == 'debug-filename-context-instance':
            o = impl.compiler.CompilerContext()
            o.debug_filename = True
            return impl.compiler.compile_prolog_from_string(text, o)

        class Ctx(impl.Ctx):
            debug_filename = True
            current_source_file = opts
        return impl.compiler.compile_prolog_from_string(text, Ctx)
    except Exception as e:  # noqa: BLE001
        return 'EXC:%s:%s' % (type(e).__name__, e)


# ---------------------------------------------------------------- (a) set order
class Chooser:
    """controls the iteration order of every set()/frozenset() built by the compiler modules"""

    def __init__(self, plan):
        self.plan = dict(plan)     # call index -> permutation index
        self.sites = []            # number of distinct elements at each call

    def make(self, iterable=()):
        items = []
        for x in iterable:
            if x not in items:
                items.append(x)
        idx = len(self.sites)
        self.sites.append(len(items))
        choice = self.plan.get(idx, 0)
        if choice:
            perm = nth_permutation(items, choice)
            return OrderedFakeSet(perm)
        return OrderedFakeSet(items)


class OrderedFakeSet(list):
    def add(self, x):
        if x not in self:
            self.append(x)

    def __or__(self, o):
        r = OrderedFakeSet(self)
        for x in o:
            r.add(x)
        return r

    def __sub__(self, o):
        return OrderedFakeSet([x for x in self if x not in o])

    def __and__(self, o):
        return OrderedFakeSet([x for x in self if x in o])

    def union(self, *os_):
        r = OrderedFakeSet(self)
        for o in os_:
            for x in o:
                r.add(x)
        return r

    def difference(self, o):
        return self - o

    def update(self, o):
        for x in o:
            self.add(x)

    def discard(self, x):
        if x in self:
            self.remove(x)


def nth_permutation(items, n):
    for i, p in enumerate(itertools.permutations(items)):
        if i == n:
            return list(p)
    return list(items)


def factorial(n):
    r = 1
    for i in range(2, n + 1):
        r *= i
    return r


def compile_with_plan(text, plan):
    import importlib
    ch = Chooser(plan)
    mods = [importlib.import_module(m) for m in MODULES]
    saved = []
    for m in mods:
        saved.append((m, m.__dict__.get('set', None), m.__dict__.get('frozenset', None)))
        m.__dict__['set'] = ch.make
        m.__dict__['frozenset'] = ch.make
    try:
        out = compile_or_exc(text)
    finally:
        for m, s, f in saved:
            for nm, v in (('set', s), ('frozenset', f)):
                if v is None:
                    m.__dict__.pop(nm, None)
                else:
                    m.__dict__[nm] = v
    return out, ch.sites


def explore_set_orders(acc, index, name, text, deviations):
    base = compile_or_exc(text)
    out0, sites = compile_with_plan(text, {})
    acc.n['evaluations'] += 1
    acc.n['validated'] += 1
    acc.n['transitions'] += 2
    if out0 != base:
        acc.violation('set-order:stand-in-changes-output', index, {'name': name, 'text': text, 'plan': {}},
                      'program %s\n%s\ncompiled with insertion-ordered sets differs from the plain compilation' % (name, text), key=name)
        return
    acc.outcome((name, digest(base)))
    acc.n['set_call_sites'] += len(sites)
    sites_multi = [(i, k) for i, k in enumerate(sites) if k >= 2]
    plans = []
    for i, k in sites_multi:
        for c in range(1, min(factorial(k), 24)):
            plans.append({i: c})
    if deviations >= 2:
        for (i1, k1), (i2, k2) in itertools.combinations(sites_multi, 2):
            for c1 in range(1, min(factorial(k1), 6)):
                for c2 in range(1, min(factorial(k2), 6)):
                    plans.append({i1: c1, i2: c2})
    for plan in plans:
        acc.n['evaluations'] += 1
        acc.n['validated'] += 1
        acc.n['transitions'] += 1
        acc.n['nontrivial'] += 1
        out, sites2 = compile_with_plan(text, plan)
        if out != base:
            acc.violation('output-depends-on-set-iteration-order', index, {'name': name, 'text': text, 'plan': {str(k): v for k, v in plan.items()}},
                          'program %s\n%s\nwith the %s-th set() built by the compiler iterating in another order (permutation %s) the output changes:\n%s'
                          % (name, text, list(plan), list(plan.values()), first_diff(base, out)), key='%s|%s' % (name, sorted(plan.items())))


def first_diff(a, b):
    la, lb = a.splitlines(), b.splitlines()
    for i, (x, y) in enumerate(zip(la, lb)):
        if x != y:
            return '  line %d: %r\n       vs %r' % (i + 1, x, y)
    return '  lengths differ: %d vs %d lines' % (len(la), len(lb))


# ---------------------------------------------------------------- (b) hash seeds
WORKER = r'''
import sys, json, hashlib
sys.path.insert(0, %(verif)r)
from mc.checks import c18
out = {}
for name, text in c18.corpus_wide(%(tier)r):
    out[name] = c18.digest(c18.compile_or_exc(text))
json.dump(out, sys.stdout)
'''


ENVIRONMENTS = {
    # a process whose default text encoding is not UTF-8 (what a plain C locale gives)
    'c-locale-no-utf8-mode': {'LC_ALL': 'C', 'LANG': 'C', 'PYTHONUTF8': '0', 'PYTHONCOERCECLOCALE': '0', 'PYTHONIOENCODING': 'utf8'},
    'utf8-mode': {'LC_ALL': 'C', 'LANG': 'C', 'PYTHONUTF8': '1'},
    'other-working-directory-and-tz': {'TZ': 'Asia/Kathmandu', 'VERIF_CHDIR': '/'},
    # an interpreter that strips assert statements and __debug__ blocks
    'python-optimize': {'PYTHONOPTIMIZE': '1'},
}


def non_ascii_corpus(tier):
    return [(n, t) for n, t in corpus_wide(tier) if any(ord(c) > 127 for c in t)] + [
        ('non-ascii-atoms', "book('五輪書', 'é').\nauthor(X) :- X = 'ü', book(_, X).\n% comment with ß\n")]


def env_corpus(tier):
    cp = corpus(tier)
    return cp[:40] + [c for c in cp if c[0].startswith('fail-')]


def compile_file_or_exc(text):
    import tempfile
    import shutil
    d = tempfile.mkdtemp(prefix='verif-c18-')
    try:
        path = os.path.join(d, 'prog.prolog')
        with open(path, 'w', encoding='utf8', newline='') as f:
            f.write(text)
        try:
            return impl.compiler.compile_prolog_from_file(path, impl.Ctx)
        except Exception as e:  # noqa: BLE001
            return 'EXC:%s' % type(e).__name__
    finally:
        shutil.rmtree(d, ignore_errors=True)


ENV_WORKER = r'''
import sys, json, os
if os.environ.get('VERIF_CHDIR'):
    os.chdir(os.environ['VERIF_CHDIR'])
sys.path.insert(0, %(verif)r)
from mc.checks import c18
out = {}
for name, text in c18.non_ascii_corpus(%(tier)r):
    out[name] = c18.digest(c18.compile_or_exc(text))
    out[name + '@file'] = c18.digest(c18.compile_file_or_exc(text))
for name, text in c18.env_corpus(%(tier)r):
    out[name] = c18.digest(c18.compile_or_exc(text))
for name, text in c18.env_corpus(%(tier)r)[:6]:
    out[name + '@abs-filename'] = c18.digest(c18.compile_or_exc(text, 'abs-filename'))
sys.stdout.write(json.dumps(out))
'''


def run_env(tier, envname):
    env = dict(os.environ)
    env.update(ENVIRONMENTS[envname])
    p = subprocess.run([sys.executable, '-c', ENV_WORKER % {'verif': VERIF, 'tier': tier}], env=env, capture_output=True, text=True, timeout=3000)
    if p.returncode != 0:
        raise RuntimeError('environment worker failed: %s' % p.stderr[-2000:])
    return json.loads(p.stdout)


def run_seed(tier, seed):
    env = dict(os.environ)
    env['PYTHONHASHSEED'] = str(seed)
    p = subprocess.run([sys.executable, '-c', WORKER % {'verif': VERIF, 'tier': tier}], env=env, capture_output=True, text=True, timeout=3000)
    if p.returncode != 0:
        raise RuntimeError('seed worker failed: %s' % p.stderr[-2000:])
    return json.loads(p.stdout)


# ---------------------------------------------------------------- (d) sweeps over the whole corpus
ZYGOTE = r'''
import sys, json
sys.path.insert(0, %(verif)r)
from mc import impl
from mc.checks import c18
from mc.runner import in_child
def job(texts):
    out = None
    for t, o in texts:
        out = c18.compile_or_exc(t, o)
    return c18.digest(out)
jobs = json.load(sys.stdin)
json.dump([in_child(job, j) for j in jobs], sys.stdout)
'''


def zygote(jobs, ways=4):
    """every job (a list of texts compiled one after the other) runs in its own child forked from a
    process that has imported the compiler but never compiled anything: digest of the last output"""
    chunks = [jobs[i::ways] for i in range(ways)]
    procs = []
    for ch in chunks:
        p = subprocess.Popen([sys.executable, '-c', ZYGOTE % {'verif': VERIF}], stdin=subprocess.PIPE, stdout=subprocess.PIPE,
                             stderr=subprocess.PIPE, text=True)
        procs.append(p)
    # feed and collect with one thread per process (a pipe may fill up)
    import threading
    outs = [None] * ways

    def feed(i):
        outs[i] = procs[i].communicate(json.dumps(chunks[i]), timeout=3000)
    ths = [threading.Thread(target=feed, args=(i,)) for i in range(ways)]
    for t in ths:
        t.start()
    for t in ths:
        t.join()
    res = [None] * len(jobs)
    for i, p in enumerate(procs):
        if p.returncode != 0:
            raise RuntimeError('zygote failed: %s' % outs[i][1][-2000:])
        for j, d in enumerate(json.loads(outs[i][0])):
            res[i + j * ways] = d
    return res


SWEEPS = ['forward', 'reverse', 'evens-then-odds-reversed', 'forward@debug-all', 'reverse@debug-parser']


def sweep_order(cp, order):
    if order == 'forward':
        return list(cp)
    if order == 'reverse':
        return list(reversed(cp))
    return list(cp[::2]) + list(reversed(cp[1::2]))


def run_sweep(acc, tier, order):
    order, _, opts = order.partition('@')
    opts = opts or None
    cp = sweep_order(corpus_wide(tier), order)
    if opts:
        cp = cp[::3]      # the traced compilations are slow
    base = zygote([[(t, opts)] for _, t in cp])
    for i, (name, text) in enumerate(cp):
        d = digest(compile_or_exc(text, opts))
        acc.n['evaluations'] += 1
        acc.n['validated'] += 1
        acc.n['transitions'] += 2
        acc.n['nontrivial'] += 1 if i else 0
        if d == base[i]:
            acc.outcome((name, opts, d))
            continue
        # name a single earlier program that is enough, if there is one
        culprit = ''
        if acc.n['sweep_minimisations'] < 2:
            acc.n['sweep_minimisations'] += 1
            pair = zygote([[(t0, opts), (text, opts)] for _, t0 in cp[:i]])
            hits = [cp[j] for j, dj in enumerate(pair) if dj != base[i]]
            if hits:
                culprit = '\nalready after compiling only this program before it in a fresh process:\n%s' % hits[0][1]
        acc.violation('output-depends-on-earlier-compilations', (3, order, opts, i), {'sweep': order + ('@' + opts if opts else ''), 'tier': tier, 'target': name},
                      'program %s\n%s\ncompiled (options: %s) as number %d of the corpus in %s order gives another text (digest %s) than as the first compilation '
                      'of a fresh process (digest %s)%s' % (name, text, opts or 'all debug options off', i + 1, order, d, base[i], culprit), key='sweep|%s|%s|%s' % (order, opts, name))


# ---------------------------------------------------------------- plan / run
# ---- (e) the stack that is left when the compiler is called ---------------------------------------
# The same text and options give the same output however deep the caller's stack is: for every
# program the smallest recursion limit T under which it compiles at all is found (bisection), and the
# program is compiled under every limit T-3 .. T+45: each compilation raises or returns the baseline.
HEADROOM_EXTRA = [('nest-10', 'p(a, b, f(c), [d], e, X) :- q(X), r(X, Y), s(Y, Z), t(Z), u(X, Z).\n'),
                  ('nest-ite', 'p(a, b, X) :- q(X), ( r(X) -> s(X, Y), t(Y) ; u(X) ), \\+ v(X), w(a, X).\n'),
                  ('nest-14', 'p(a, b, c, d, e, f) :- q1(X), q2(X), q3(X), q4(X), q5(X), q6(X), q7(X), q8(X).\n'),
                  ('many-clauses', ''.join('k(%d, a%d).\n' % (i, i) for i in range(30)))]


def _depth():
    d, f = 0, sys._getframe()
    while f is not None:
        d += 1
        f = f.f_back
    return d


def compile_under(text, limit):
    old = sys.getrecursionlimit()
    try:
        sys.setrecursionlimit(limit)
        return impl.compile_text(text)
    except RecursionError:
        return None
    except Exception as e:  # noqa: BLE001 - a rejection (whatever the class) is not an output
        return ('rejected', type(e).__name__)
    finally:
        sys.setrecursionlimit(old)


def headroom_program(acc, idx, name, text):
    base = compile_or_exc(text)
    if not isinstance(base, str) or base.startswith('!!'):
        return
    here = _depth() + 8
    lo, hi = here, here + 3000
    if not isinstance(compile_under(text, hi), str):
        return
    while lo < hi:
        mid = (lo + hi) // 2
        if isinstance(compile_under(text, mid), str):
            hi = mid
        else:
            lo = mid + 1
    T = lo
    for limit in range(max(here, T - 3), T + 46):
        acc.n['evaluations'] += 1
        acc.n['validated'] += 1
        acc.n['transitions'] += 1
        out = compile_under(text, limit)
        if isinstance(out, str):
            acc.n['nontrivial'] += 1
            if out != base:
                acc.violation('output-depends-on-the-stack-left-to-the-compiler', (5, idx, limit - T), {'headroom': [name, text, limit - here]},
                              'program\n%s\ncompiled with %d frames of stack left (%d more than the least it needs) gives other code than with an ordinary stack:\n%s'
                              % (text, limit - here, limit - T, first_diff(base, out)), key='headroom|%s|%d' % (name, limit - T))
                return
            acc.outcome(('headroom', 'same'))
        else:
            acc.outcome(('headroom', 'raises'))


def run_headroom(spec):
    _, tier, k, n = spec
    acc = Acc()
    for idx, (name, text) in enumerate(corpus(tier) + HEADROOM_EXTRA):
        if idx % n == k:
            headroom_program(acc, idx, name, text)
    return acc


# ---- (f) how MUCH was compiled before ------------------------------------------------------------------
# Whatever a compiler remembers between compilations has some capacity.  In a fresh process (forked from a
# never-compiled zygote) a filler program with exactly n distinct variable names is compiled, then a target;
# n runs through every value from 1 below to 1 above each typical capacity (64 .. 8192), and the filler
# shares none, the first, the first two ... of the target's variable names.  The target compiles to what it
# compiles to in a fresh process.
CAPACITIES = [64, 100, 128, 256, 500, 512, 1000, 1024, 2048, 4096, 8192]
CAP_TARGETS = [('same', 'same(X, Y, X) :- known(Y).\n', ['X', 'Y']), ('repeat', 'p(A, B, A, B) :- q(B, A), r(Cc).\n', ['A', 'B', 'Cc']),
               ('nested', 'p(X, f(X, Y), [Y|T]) :- q(T, _, _).\n', ['X', 'Y', 'T']), ('ite', 'p(X, Y) :- ( q(X) -> r(Y, Z) ; s(Z) ), \\+ t(X, Z).\n', ['X', 'Y', 'Z'])]


def filler(n, shared):
    names = list(shared) + ['G%d' % i for i in range(n - len(shared))]
    lines = []
    for i in range(0, len(names), 40):
        lines.append('fill(%s).' % ', '.join(names[i:i + 40]))
    return '\n'.join(lines) + '\n'


def capacity_jobs(tier):
    caps = [c for c in CAPACITIES if tier != 'quick' or c <= 4096]
    idx = 0
    for cap in caps:
        for d in (-1, 0, 1):
            for tname, ttext, tvars in CAP_TARGETS:
                for k in range(len(tvars) + 1):
                    yield idx, (cap + d, tname, k)
                    idx += 1


def run_capacity(spec):
    _, tier, k, n = spec
    acc = Acc()
    targets = {t[0]: t for t in CAP_TARGETS}
    mine = [(i, j) for i, j in capacity_jobs(tier) if i % n == k]
    base = dict(zip(targets, zygote([[(targets[t][1], None)] for t in targets], ways=1)))
    jobs = [[(filler(nn, targets[tn][2][:kk]), None), (targets[tn][1], None)] for _, (nn, tn, kk) in mine]
    res = zygote(jobs, ways=2) if jobs else []
    for (i, (nn, tn, kk)), d in zip(mine, res):
        acc.n['evaluations'] += 1
        acc.n['validated'] += 1
        acc.n['transitions'] += 2
        acc.n['nontrivial'] += 1
        if d != base[tn]:
            acc.violation('output-depends-on-how-much-was-compiled-before', (6, i), {'capacity': [nn, tn, kk], 'tier': tier},
                          'in a fresh process a program with exactly %d distinct variable names (among them the first %d of the target\'s: %s) is compiled, then\n%s\nwhich gives another text (digest %s) than as the first compilation of a fresh process (digest %s)'
                          % (nn, kk, targets[tn][2][:kk], targets[tn][1], d, base[tn]), key='capacity|%d|%s|%d' % (nn, tn, kk))
        else:
            acc.outcome(('capacity', tn))
    return acc


# ---- (g) a rejected program is rejected again -------------------------------------------------------------
# every program of the corpus that the compiler rejects is offered three times in a row while the caller KEEPS the
# exception objects (and with them the frames of the failed compilations): three rejections of the same kind
def run_rejected(spec):
    _, tier = spec
    acc = Acc()
    for idx, (name, text) in enumerate(corpus(tier)):
        kept = []
        outcomes = []
        for attempt in range(3):
            try:
                out = impl.compile_text(text)
                outcomes.append(('compiled', digest(out)))
            except Exception as e:  # noqa: BLE001
                kept.append(e)
                outcomes.append(('rejected', type(e).__name__))
        if outcomes[0][0] != 'rejected':
            continue
        acc.n['evaluations'] += 1
        acc.n['validated'] += 1
        acc.n['transitions'] += 3
        acc.n['nontrivial'] += 1
        if outcomes[1] != outcomes[0] or outcomes[2] != outcomes[0]:
            acc.violation('rejected-program-accepted-on-a-later-attempt', (7, idx), {'rejected': [name, text]},
                          'program %s\n%s\noffered three times while the caller keeps the exception objects: %s' % (name, text, outcomes), key='rejected|%s' % name)
        else:
            acc.outcome(('rejected', outcomes[0][1]))
        del kept
    return acc


NSH = 16


def plan(tier):
    seeds = range(6 if tier == 'quick' else 16)
    # the longest shards first
    return [('sweep', tier, o) for o in SWEEPS] + [('hist', tier, k, NSH) for k in range(NSH)] + [('seed', tier, s) for s in seeds] + [('env', tier, e) for e in ENVIRONMENTS] + [('set', tier, k, NSH) for k in range(NSH)] + [('headroom', tier, k, NSH) for k in range(NSH)] + [('capacity', tier, k, 8) for k in range(8)] + [('rejected', tier)]


def run_shard(spec):
    if spec[0] == 'rejected':
        return run_rejected(spec)
    if spec[0] == 'capacity':
        return run_capacity(spec)
    if spec[0] == 'headroom':
        # in a child: compilations that die half-way must not leave anything in this worker
        from ..runner import in_child
        return in_child(run_headroom, spec, quiet=True)
    acc = Acc()
    if spec[0] == 'set':
        _, tier, k, n = spec
        for idx, (name, text) in enumerate(corpus(tier)):
            if idx % n != k:
                continue
            explore_set_orders(acc, (0, idx), name, text, 1 if tier == 'quick' else 2)
            if idx % 53 == 0:
                acc.sample({'program': text[:200]}, limit=1)
    elif spec[0] == 'env':
        _, tier, envname = spec
        other = run_env(tier, envname)
        mine = {}
        texts = {}
        for name, text in non_ascii_corpus(tier):
            mine[name] = digest(compile_or_exc(text))
            mine[name + '@file'] = digest(compile_file_or_exc(text))
            texts[name] = texts[name + '@file'] = text
        for name, text in env_corpus(tier):
            mine[name] = digest(compile_or_exc(text))
            texts[name] = text
        for name, text in env_corpus(tier)[:6]:
            mine[name + '@abs-filename'] = digest(compile_or_exc(text, 'abs-filename'))
            texts[name + '@abs-filename'] = text
        for name, d in mine.items():
            acc.n['evaluations'] += 1
            acc.n['validated'] += 1
            acc.n['transitions'] += 1
            acc.n['nontrivial'] += 1
            if other.get(name) != d:
                acc.violation('output-depends-on-process-environment', (4, envname, name), {'env': envname, 'tier': tier, 'name': name},
                              'program %s%s\n%s\ngives another result (digest %s) in a fresh process with the environment %s than in this process (digest %s)'
                              % (name, ' compiled through compile_prolog_from_file' if name.endswith('@file') else '', texts[name][:300], other.get(name), ENVIRONMENTS[envname], d),
                              key='env|%s|%s' % (envname, name))
            else:
                acc.outcome((name, d))
    elif spec[0] == 'sweep':
        run_sweep(acc, spec[1], spec[2])
    elif spec[0] == 'seed':
        _, tier, seed = spec
        mine = {name: digest(compile_or_exc(text)) for name, text in corpus_wide(tier)}
        other = run_seed(tier, seed)
        texts = dict(corpus_wide(tier))
        for name, d in mine.items():
            acc.n['evaluations'] += 1
            acc.n['validated'] += 1
            acc.n['transitions'] += 1
            if other.get(name) != d:
                # show the two outputs' first difference by recompiling in a child with that seed
                acc.violation('output-depends-on-process-or-hash-seed', (1, seed, name), {'name': name, 'text': texts[name], 'seed': seed},
                              'program %s\n%s\ncompiles to different text in a fresh process with PYTHONHASHSEED=%d (digest %s) than in this process (PYTHONHASHSEED=%s, digest %s)'
                              % (name, texts[name], seed, other.get(name), os.environ.get('PYTHONHASHSEED'), d), key='%s|%d' % (name, seed))
            else:
                acc.outcome((name, d))
                if 'vars-' in name and name.split('-')[2] >= '2':
                    acc.n['nontrivial'] += 1
    else:
        _, tier, k, n = spec
        cp = corpus(tier)
        sub = [c for c in cp if c[0].startswith('vars-')][::5] + [c for c in cp if c[0].startswith('tree-')][::37][:4] + cp[-3:]
        if tier == 'quick':
            sub = sub[:8]
        sub = sub + [c for c in cp if c[0].startswith('fail-')]
        idx = 0
        # the same text under other options belongs to the histories too (a result must not be
        # remembered under an incomplete key)
        OPTS = [None, 'a.pl', 'b.pl']
        subo = [(nm, tx, None) for nm, tx in sub]
        for nm, tx in sub[:3]:
            subo += [(nm + '@a.pl', tx, 'a.pl'), (nm + '@b.pl', tx, 'b.pl')]
        for nm, tx in sub[:2]:
            subo += [(nm + '@file', tx, 'file-default-options'), (nm + '@string-default', tx, 'string-default-options'),
                     (nm + '@ctx-instance', tx, 'debug-filename-context-instance'),
                     (nm + '@ctx-instance-off', tx, 'context-instance-all-off'), (nm + '@ctx-instance-gen', tx, 'context-instance-generator-debug')]
        for tname, ttext, topts in subo:
            base = None
            for (n1, t1, o1), (n2, t2, o2) in itertools.product(subo, repeat=2):
                idx += 1
                if idx % n != k:
                    continue
                if base is None:
                    base = run_fresh(ttext, topts)
                compile_or_exc(t1, o1)
                compile_or_exc(t2, o2)
                out = compile_or_exc(ttext, topts)
                acc.n['evaluations'] += 1
                acc.n['validated'] += 1
                acc.n['transitions'] += 3
                acc.n['nontrivial'] += 1
                if out != base:
                    acc.violation('output-depends-on-earlier-compilations', (2, idx), {'target': ttext, 'target_opts': topts, 'before': [t1, t2], 'before_opts': [o1, o2]},
                                  'program\n%s\ncompiles differently after compiling\n%s\nand\n%s\nin the same process:\n%s' % (ttext, t1, t2, first_diff(base, out)),
                                  key='%s|%s|%s' % (tname, n1, n2))
                else:
                    acc.outcome((tname, digest(out)))
    return acc


_fresh_cache = {}


def run_fresh(text, opts=None):
    """output of compiling `text` as the first compilation of a fresh process"""
    d = _fresh_cache.get((text, opts))
    if d is None:
        code = 'import sys; sys.path.insert(0, %r); from mc import impl; sys.stdout.write(__import__("mc.checks.c18").checks.c18.compile_or_exc(sys.stdin.read(), %r))' % (VERIF, opts)
        p = subprocess.run([sys.executable, '-c', code], input=text, capture_output=True, text=True, timeout=600)
        if p.returncode != 0:
            raise RuntimeError(p.stderr[-1500:])
        d = _fresh_cache[(text, opts)] = p.stdout
    return d


def replay(case):
    acc = Acc()
    if 'rejected' in case:
        kept, outcomes = [], []
        for attempt in range(3):
            try:
                outcomes.append(('compiled', digest(impl.compile_text(case['rejected'][1]))))
            except Exception as e:  # noqa: BLE001
                kept.append(e)
                outcomes.append(('rejected', type(e).__name__))
        return [] if outcomes[1] == outcomes[0] == outcomes[2] else [('rejected-program-accepted-on-a-later-attempt', str(outcomes))]
    if 'capacity' in case:
        nn, tn, kk = case['capacity']
        t = {x[0]: x for x in CAP_TARGETS}[tn]
        a, b = zygote([[(t[1], None)], [(filler(nn, t[2][:kk]), None), (t[1], None)]], ways=1)
        return [] if a == b else [('output-depends-on-how-much-was-compiled-before', 'digest %s after the filler, %s fresh' % (b, a))]
    if 'headroom' in case:
        headroom_program(acc, 0, case['headroom'][0], case['headroom'][1])
        return [(sig, g['detail']) for sig, g in acc.groups.items()]
    if 'env' in case:
        acc = run_shard(('env', case['tier'], case['env']))
        return [(sig, g['detail']) for sig, g in acc.groups.items()]
    if 'sweep' in case:
        run_sweep(acc, case['tier'], case['sweep'])
        return [(sig, g['detail']) for sig, g in acc.groups.items()]
    if 'plan' in case:
        explore_set_orders(acc, (0, 0), case['name'], case['text'], 2)
    elif 'seed' in case:
        mine = digest(compile_or_exc(case['text']))
        env = dict(os.environ, PYTHONHASHSEED=str(case['seed']))
        code = 'import sys; sys.path.insert(0, %r); from mc.checks import c18; print(c18.digest(c18.compile_or_exc(sys.stdin.read())))' % VERIF
        outs = set()
        for s in range(8):
            env['PYTHONHASHSEED'] = str(s)
            p = subprocess.run([sys.executable, '-c', code], input=case['text'], env=env, capture_output=True, text=True)
            outs.add(p.stdout.strip())
        if len(outs) > 1:
            return [('output-depends-on-process-or-hash-seed', '%d different outputs under 8 hash seeds for\n%s' % (len(outs), case['text']))]
        return []
    else:
        base = run_fresh(case['target'], case.get('target_opts'))
        for t, o in zip(case['before'], case.get('before_opts', [None, None])):
            compile_or_exc(t, o)
        out = compile_or_exc(case['target'], case.get('target_opts'))
        if out != base:
            return [('output-depends-on-earlier-compilations', first_diff(base, out))]
        return []
    return [(sig, g['detail']) for sig, g in acc.groups.items()]
