"""C04 - engine instances are isolated; interleaved queries do not interfere."""
import itertools

from .. import impl, sched
from ..diff import compile_cached
from ..runner import Acc, watchdog, Hang, in_child
from ..terms import A, C, F, V, L, NIL, call, conj, TRUE, CUT, show_program, show_term

ID = 'C04'
LEVEL = 'model_checking'
RULE = ('(g) deep suspended queries: len/2 on lists of dA x dB x dC elements (quick: 1 x 2 x 1 depths 100..350 calls, thorough: 3 x 3 x 2 depths 100..350) by three actors - two that stay suspended that deep after their first answer, one that runs to the end - in every merge order of their 5 steps, on three engines and on one: each actor gives the answers it gives alone (a suspended query occupies no stack and no budget of another); (f) engines that come and go: 30 rounds of an engine with a Python predicate, a script and facts that is used, dropped and collected, followed by 40 new engines that must each be pristine; (e) what a process does first: every sequence of <= 4 events over {A loads, A queries, A clears, B loads, B queries}, each in a process of its own forked from a zygote that never resolved a call, where B\'s predicates are named like A\'s registrations are filed (step_1, pair_2, ext_n, once_1): afterwards both engines give exactly their own answers; (a) two engines, generator level: every ordered pair of actor scripts from a menu of 21 incl. one that asserts with ONE Atom object (made by whichever of the two engines needs it first) as predicate name on both engines and two with fact tables of 40 and 300 facts looked up by key (+3 scripts that register ONE shared function object - inferred, with an explicit arity, as unbound and as bound method - paired with each other and with the registering scripts) (create engine, retractall / retract of predicates the engine does not know yet, load '
        'script with overwrite on/off, assert_fact, register_function, clear, atom, start/next/close of a query or a '
        'retract) x ALL merge orders of their steps (with disjoint vocabularies and, for scripts that clear or intern atoms, with the same atom names on both engines); (b) one engine: every pair (and every triple from a subset) of '
        'side-effect-free queries over disjoint variables (recursion, cut, if-then-else, negation, \\=, once, findall, '
        'infinite enumeration) suspended simultaneously x ALL merge orders of their next() steps (pairs: 4 each, thorough 5; triples: 2 each, thorough 3), including queries over dynamic facts that contain variables; '
        '(c) two real threads, each with its own engine (assert two facts, enumerate a conjunction, use findall and, in a 4th body, assert and use facts that contain variables, one of them twice; '
        'retract), under a baton scheduler that makes every traced source line of yldprolog and of the loaded script a '
        'scheduling point: every schedule with <= 1 preemption [thorough: <= 2 for the conjunction body]. (c2) bodies 1 and 4 again with every logger at DEBUG and the records kept. (d) a fault in one engine: in a process that has never resolved a call, engine A runs each of 4 queries under every recursion limit 6..69 (the limit strikes at every depth of the first resolution of every predicate), then a NEW engine B must answer all queries completely. Oracle, without hand-written '
        'expectations: the observation log of each actor / query / thread equals the log of the same script run alone. '
        'The first schedule is executed twice and must reproduce. states = distinct observation logs; transitions = '
        'actor steps resp. scheduling points executed; non-trivial = steps of different actors actually alternate')
ASSUMPTIONS = ['a source line is atomic for the thread explorer: preemption between the bytecodes of one line is not explored',
               'two threads, at most two preemptions; evaluate_bounded is outside the statement',
               'the YLDPROLOG_VERIF weak-set hook is switched off in this check (it is module-level state of its own)']

impl.engine._VERIF_VARIABLES = None
X = V('X')
S1 = [(F('p', A('s1a')), TRUE), (F('p', A('s1b')), TRUE), (F('r', X), call(F('p', X)))]
S2 = [(F('p', A('s2')), TRUE), (F('q', X), conj(call(F('p', X)), CUT))]
SCRIPTS = {'S1': S1, 'S2': S2}


def bounds(tier):
    return {'preemption_bound': 1 if tier == 'quick' else '2 (conjunction body), 1 (findall, retract bodies)', 'actor_scripts': len(MENU), 'interleaved_queries': len(QUERIES)}


MENU = [
    [('load', 'S1', True), ('start', 'p'), ('next',), ('next',), ('next',)],
    [('assert', 'p', 'a1'), ('assert', 'p', 'a2'), ('start', 'p'), ('next',), ('next',)],
    [('load', 'S1', True), ('load', 'S2', False), ('start', 'p'), ('next',), ('next',), ('next',)],
    [('assert', 'p', 'a1'), ('rstart', 'p'), ('next',), ('next',)],
    [('reg', 'f'), ('start', 'f'), ('next',), ('close',)],
    [('load', 'S1', True), ('clear',), ('start', 'p'), ('next',)],
    [('load', 'S2', True), ('assert', 'p', 'z'), ('start', 'q'), ('next',), ('next',)],
    [('atom', 'x'), ('assert', 'p', 'x'), ('start', 'p'), ('next',), ('atom', 'x')],
    [('load', 'S1', True), ('start', 'r'), ('next',), ('assert', 'p', 'late'), ('next',), ('next',)],
    [('assert', 'p', 'a1'), ('start', 'p'), ('next',), ('clear',), ('next',)],
    [('load', 'S1', True), ('load', 'S1', False), ('start', 'p'), ('next',), ('next',), ('next',)],
    [('reg', 'p'), ('assert', 'p', 'd'), ('start', 'p'), ('next',), ('next',)],
    # operations on predicates that do not exist yet in this engine (the "reset" idiom)
    [('retractall', 'p'), ('assert', 'p', 'r1'), ('start', 'p'), ('next',), ('next',)],
    [('retractall', 'f'), ('retractall', 'p'), ('rstart', 'p'), ('next',), ('assert', 'f', 'r2')],
    [('rstart', 'q'), ('next',), ('retractall', 'q'), ('assert', 'q', 'r3'), ('assert', 'p', 'r4')],
    [('assert', 'p', 'tom'), ('askatom', 'p', 'tom'), ('askatom', 'p', 'tom'), ('askatom', 'p', 'tom')],
    [('atom', 'tom'), ('assert', 'p', 'tom'), ('clear',), ('atom', 'tom'), ('clear',)],
    # an enumeration of dynamic facts suspended while its own engine asserts to the same predicate
    # (the logical update view of C14 - with another engine doing anything at all in between)
    [('assert', 'p', 'a1'), ('start', 'p'), ('next',), ('assert', 'p', 'late'), ('next',)],
    # LARGE fact tables (whatever an engine builds to find facts quickly is its own): 40 and 300 facts big(k_i, v_i)
    # with the same keys on both engines, looked up by key, also while an enumeration by key is suspended
    [('assertmany', 'big', 40), ('askkey', 'big', 7), ('askkey', 'big', 33), ('askkey', 'big', 7)],
    [('assertmany', 'big', 300), ('startkey', 'big', 3), ('next',), ('askkey', 'big', 270), ('next',)],
    # ONE Atom object (made once by the engine that needs it first, kept in a constant of the application) used as the
    # predicate name in assert_fact on several engines: the facts are the facts of the engine that was asked
    [('assertshared', 'p', 's1'), ('start', 'p'), ('next',), ('assertshared', 'p', 's2'), ('next',), ('next',)],
    # ONE Python function object (resp. a function and its bound method) registered on several engines
    # in different ways: what an engine calls it by is that engine's own business
    [('regshared', 'explicit-1'), ('count', 'sh', 1), ('count', 'sh', 2)],
    [('regshared', 'inferred'), ('count', 'sh', 1), ('count', 'sh', 2), ('clear',), ('regshared', 'inferred'), ('count', 'sh', 2)],
    [('regshared', 'unbound-method'), ('count', 'sh', 2), ('count', 'sh', 3), ('regshared', 'bound-method'), ('count', 'sh', 2)],
]


SHARED_FROM = 21


_SHARED_ATOMS = {}


def shared_atom(name, yp):
    """the application's constant: made by whichever engine needs it first in this run, used by all"""
    a = _SHARED_ATOMS.get(name)
    if a is None:
        a = _SHARED_ATOMS[name] = yp.atom(name)
    return a


def SHARED(arg1, arg2=None):
    for _ in impl.engine.unify(arg1, 'shared'):
        yield False


class SharedLib:
    def sh(self, arg1, arg2=None):
        for _ in impl.engine.unify(arg1, 'shared'):
            yield False


SHARED_LIB = SharedLib()


class Actor:
    """executes one script, step by step, on its own engine"""

    def __init__(self, tag, script, texts):
        self.tag = tag
        self.script = [('new',)] + list(script)
        self.texts = texts
        self.pc = 0
        self.yp = None
        self.q = None
        self.var = None
        self.log = []
        self.atoms = {}

    def done(self):
        return self.pc >= len(self.script)

    def step(self):
        op = self.script[self.pc]
        self.pc += 1
        k = op[0]
        tag = self.tag
        if k == 'new':
            self.yp = impl.YP()
        elif k == 'load':
            self.yp.load_script_from_string(self.texts[op[1]], fn=impl.SCRIPT_FN, overwrite=op[2])
        elif k == 'assert':
            self.yp.assert_fact(self.yp.atom(op[1]), [self.yp.atom('%s_%s' % (op[2], tag))])
        elif k == 'assertshared':
            self.yp.assert_fact(shared_atom(op[1], self.yp), [self.yp.atom('%s_%s' % (op[2], tag))])
        elif k == 'assertmany':
            for i in range(op[2]):
                self.yp.assert_fact(self.yp.atom(op[1]), [self.yp.atom('k%d' % i), self.yp.atom('v%d_%s' % (i, tag))])
        elif k == 'askkey':
            v = self.yp.variable()
            self.log.append(('by-key', op[2], tuple(impl.observe([v]) for _ in self.yp.query(op[1], [self.yp.atom('k%d' % op[2]), v]))))
        elif k == 'startkey':
            self.var = self.yp.variable()
            self.q = self.yp.query(op[1], [self.yp.atom('k%d' % op[2]), self.var])
        elif k == 'reg':
            yp = self.yp
            marker = yp.atom('py_%s' % tag)

            def f(arg1):
                for _ in impl.engine.unify(arg1, marker):
                    yield False
            yp.register_function(op[1], f)
        elif k == 'regshared':
            if op[1] == 'explicit-1':
                self.yp.register_function('sh', SHARED, arity=1)
            elif op[1] == 'inferred':
                self.yp.register_function('sh', SHARED)
            elif op[1] == 'unbound-method':
                self.yp.register_function('sh', SharedLib.sh)
            else:
                self.yp.register_function('sh', SHARED_LIB.sh)
        elif k == 'count':
            try:
                n = len(list(self.yp.query(op[1], [self.yp.variable() for _ in range(op[2])])))
            except TypeError as e:
                n = 'TypeError'
            self.log.append(('answers', op[1], op[2], n))
        elif k == 'askatom':
            # a ground query built from a freshly looked-up atom
            n = len(list(self.yp.query(op[1], [self.yp.atom('%s_%s' % (op[2], tag))])))
            self.log.append(('ground-answers', n))
        elif k == 'retractall':
            n = len(list(self.yp.query('retractall', [self.yp.functor(op[1], [self.yp.variable()])])))
            self.log.append(('retractall-answers', n))
        elif k == 'clear':
            self.yp.clear()
        elif k == 'atom':
            a = self.yp.atom(op[1] + '_' + tag)
            prev = self.atoms.get(op[1])
            self.log.append(('atom-same-object', prev is None or prev is a))
            self.atoms[op[1]] = a
        elif k == 'start':
            self.var = self.yp.variable()
            self.q = self.yp.query(op[1], [self.var])
        elif k == 'rstart':
            self.var = self.yp.variable()
            self.q = self.yp.query('retract', [self.yp.functor(op[1], [self.var])])
        elif k == 'next':
            try:
                next(self.q)
                self.log.append(('answer', impl.observe([self.var])))
            except StopIteration:
                self.log.append(('exhausted',))
        elif k == 'close':
            self.q.close()
            self.log.append(('closed',))

    def finish(self):
        if self.q is not None:
            self.q.close()
        dump = []
        for name in ('p', 'q', 'r', 'f'):
            v = self.yp.variable()
            rows = []
            for _ in self.yp.query(name, [v]):
                rows.append(impl.observe([v]))
                if len(rows) > 20:
                    break
            dump.append((name, tuple(rows)))
        keys = tuple(sorted(k for k in self.yp.eval_context if k not in ('__builtins__',)))
        return tuple(self.log), tuple(dump), keys


def run_merge(texts, s1, s2, order, tags=('A', 'B')):
    _SHARED_ATOMS.clear()
    a = [Actor(tags[0], s1, texts), Actor(tags[1], s2, texts)]
    for who in order:
        a[who].step()
    return a[0].finish(), a[1].finish()


def alone(texts, script, tag):
    _SHARED_ATOMS.clear()
    a = Actor(tag, script, texts)
    while not a.done():
        a.step()
    return a.finish()


def merge_orders(n1, n2):
    for pos in itertools.combinations(range(n1 + n2), n1):
        order = [1] * (n1 + n2)
        for p in pos:
            order[p] = 0
        yield order


# ---------------------------------------------------------------- (b) one engine
N, H, T, R, Y, W = V('N'), V('H'), V('T'), V('R'), V('Y'), V('W')
PROG_B = [
    (F('m', C(1)), TRUE), (F('m', C(2)), TRUE), (F('m', C(3)), TRUE),
    (F('app', NIL, V('Lx'), V('Lx')), TRUE), (F('app', L([H], T), V('Lx'), L([H], R)), call(F('app', T, V('Lx'), R))),
    (F('mem', X, L([X], ('v', ('_', 1)))), TRUE), (F('mem', X, L([('v', ('_', 1))], T)), call(F('mem', X, T))),
    (F('nat', A('z')), TRUE), (F('nat', F('s', N)), call(F('nat', N))),
    (F('t1', X), conj(call(F('m', X)), ('\\+', call(F('=', X, C(1)))))),
    (F('t2', X, Y), conj((';', ('->', call(F('m', X)), TRUE), call(F('=', X, C(0)))), call(F('m', Y)))),
    (F('t3', X), call(F('once', F('m', X)))),
    (F('t4', V('Lq')), call(F('findall', X, F('m', X), V('Lq')))),
    (F('t5', X), conj(call(F('m', X)), call(F('\\=', X, C(2))))),
    (F('t6', X, Y), conj(call(F('m', X)), CUT, call(F('m', Y)))),
    (F('t7', X), (';', call(F('m', X)), conj(call(F('=', X, C(9))), CUT))),
    (F('t8', X, Y), conj(call(F('same', X, C(1))), call(F('same', Y, C(2))), call(F('dynp', W)))),
]
QUERIES = [F('app', V('Q1'), V('Q2'), L([C(1), C(2), C(3)])), F('mem', V('Q1'), L([A('a'), A('b'), A('c')])), F('nat', V('Q1')),
           F('t1', V('Q1')), F('t2', V('Q1'), V('Q2')), F('t3', V('Q1')), F('t4', V('Q1')), F('t5', V('Q1')), F('t6', V('Q1'), V('Q2')),
           F('t7', V('Q1')), F('m', V('Q1')),
           # dynamic facts that contain variables (every use works on its own renamed copy)
           F('same', A('a'), V('Q1')), F('same', A('b'), V('Q1')), F('same', V('Q1'), A('c')), F('dynp', V('Q1')),
           F('dyn2', V('Q1'), C(7)), F('t8', V('Q1'), V('Q2')),
           # ground uses of a fact with a repeated variable that need different bindings of it
           F('same', A('a'), A('a')), F('same', A('b'), A('b')), F('dyn2', F('f', C(1)), C(1)), F('dyn2', F('f', C(2)), C(2))]
TRIPLE_SUBSET = [0, 8, 11, 12, 17, 18]
DYNAMIC_B = [F('same', V('S'), V('S')), F('dynp', ('v', ('_', 1))), F('dynp', A('k')), F('dyn2', F('f', V('D')), V('D'))]


class QRun:
    def __init__(self, yp, goal):
        vm = {}
        self.args = [impl.to_engine(yp, x, vm) for x in goal[2]]
        self.q = yp.query(goal[1], self.args)
        self.log = []

    def step(self):
        try:
            next(self.q)
            self.log.append(impl.observe(self.args))
        except StopIteration:
            self.log.append('exhausted')


def run_queries(pytext, goals, order):
    yp = impl.new_engine(pytext)
    for t in DYNAMIC_B:
        yp.assert_fact(yp.atom(t[1]), [impl.to_engine(yp, x, {}) for x in t[2]])
    runs = [QRun(yp, g) for g in goals]
    for who in order:
        runs[who].step()
    logs = [tuple(r.log) for r in runs]
    for r in runs:
        r.q.close()
    return logs


def multi_orders(counts):
    """all merge orders of k actors with counts[i] steps each"""
    total = sum(counts)

    def rec(remaining, acc):
        if len(acc) == total:
            yield list(acc)
            return
        for i, r in enumerate(remaining):
            if r:
                remaining[i] -= 1
                acc.append(i)
                yield from rec(remaining, acc)
                acc.pop()
                remaining[i] += 1
    yield from rec(list(counts), [])


# ---------------------------------------------------------------- (c) threads
PROG_C = [(F('pair', X, Y), conj(call(F('f', X)), call(F('f', Y)))),
          (F('both', V('Lq')), call(F('findall', F('k', X, Y), F('pair', X, Y), V('Lq')))),
          (F('drop', X), call(F('retract', F('f', X))))]


def thread_bodies(pytext, variant):
    yps = []
    for t in range(2):
        yp = impl.YP()
        yp.load_script_from_string(pytext, fn=impl.SCRIPT_FN)
        yps.append(yp)

    def body(i):
        def b():
            yp = yps[i]
            log = []
            yp.assert_fact(yp.atom('f'), [yp.atom('a%d' % i)])
            yp.assert_fact(yp.atom('f'), [yp.functor('g', [yp.atom('b%d' % i), i])])
            x, y = yp.variable(), yp.variable()
            if variant == 0:
                for _ in yp.query('pair', [x, y]):
                    log.append(impl.observe([x, y]))
            elif variant == 1:
                for _ in yp.query('both', [x]):
                    log.append(impl.observe([x]))
                log.append(yp.atom('a%d' % i) is yp.atom('a%d' % i))
            elif variant == 3:
                # facts that contain variables (one of them twice): storing and matching them renames
                # their variables apart, once per assert and once per use
                v, w = yp.variable(), yp.variable()
                yp.assert_fact(yp.atom('same'), [v, yp.functor('h', [v, w]), w])
                yp.assert_fact(yp.atom('same'), [yp.atom('c%d' % i), yp.variable(), yp.atom('c%d' % i)])
                z = yp.variable()
                for _ in yp.query('same', [yp.atom('a%d' % i), y, z]):
                    log.append(impl.observe([y, z]))
                for _ in yp.query('same', [x, y, z]):
                    log.append(impl.observe([x, y, z]))
            else:
                for _ in yp.query('drop', [x]):
                    log.append(impl.observe([x]))
                    for _ in yp.query('f', [y]):
                        log.append(impl.observe([y]))
            return log
        return b
    return [body(0), body(1)]


def in_scope(fn):
    return fn == impl.SCRIPT_FN or (os_sep + 'yldprolog' + os_sep) in fn


import os as _os  # noqa: E402
os_sep = _os.sep


# ---------------------------------------------------------------- (d) a fault in one engine
# Engine A runs a query under a recursion limit that strikes at EVERY depth of its first resolution
# of each predicate (the process has never resolved anything before: each case runs in a child forked
# from a zygote that has only imported the package and compiled the program); afterwards a new engine B
# with the same program must answer every query completely.
FAULT_PROGRAM = [(F('leaf', A('l1')), TRUE), (F('leaf', A('l2')), TRUE),
                 (F('walk', X), conj(call(F('leaf', X)), call(F('hop', X, Y)), call(F('leaf', Y)))),
                 (F('hop', A('l1'), A('l2')), TRUE), (F('hop', A('l2'), A('l1')), TRUE),
                 (F('deep', A('z')), TRUE), (F('deep', F('s', X)), call(F('deep', X)))]
FAULT_QUERIES = [('walk', 1), ('leaf', 1), ('hop', 2), ('deep', 1)]
FAULT_ZYGOTE = r'''
import sys, json
sys.path.insert(0, %(verif)r)
from mc import impl
from mc.checks import c04
from mc.runner import in_child
pytext = impl.compile_text(c04.show_program(c04.FAULT_PROGRAM))
jobs = json.load(sys.stdin)
json.dump([in_child(c04.fault_case, pytext, q, lim, quiet=True) for q, lim in jobs], sys.stdout)
'''


def fault_case(pytext, qi, limit):
    """in a process that has never resolved a call: engine A under the limit, then engine B freely"""
    import sys
    name, n = FAULT_QUERIES[qi]
    a = impl.YP()
    a.load_script_from_string(pytext, fn=impl.SCRIPT_FN)
    vs = [a.variable() for _ in range(n)]
    res = a.evaluate_bounded(a.query(name, vs), lambda x: 1, limit)
    sys.setrecursionlimit(1000)
    b = impl.YP()
    b.load_script_from_string(pytext, fn=impl.SCRIPT_FN)
    out = []
    for qn, k in FAULT_QUERIES:
        ws = [b.variable() for _ in range(k)]
        cnt = 0
        try:
            for _ in b.query(qn, ws):
                cnt += 1
                if cnt >= 8:
                    break
        except Exception as e:  # noqa: BLE001
            cnt = 'raised %s' % type(e).__name__
        out.append(cnt)
    return (len(res), out)


def run_faults(spec, acc):
    import json
    import subprocess
    import sys
    from ..runner import VERIF
    _, k, n = spec
    jobs = [(qi, lim) for lim in range(6, 70) for qi in range(len(FAULT_QUERIES))]
    jobs = [j for i, j in enumerate(jobs) if i % n == k]
    p = subprocess.run([sys.executable, '-c', FAULT_ZYGOTE % {'verif': VERIF}], input=json.dumps(jobs), capture_output=True, text=True, timeout=3000)
    if p.returncode != 0:
        raise RuntimeError('fault zygote failed: %s' % p.stderr[-2000:])
    want = [2, 2, 2, 8]
    for (qi, lim), r in zip(jobs, json.loads(p.stdout)):
        acc.n['evaluations'] += 1
        acc.n['validated'] += 1
        acc.n['transitions'] += 1 + len(FAULT_QUERIES)
        if r[1] != want:
            acc.violation('fault-in-one-engine-changes-another', (3, qi, lim), {'kind': 'd', 'query': qi, 'limit': lim},
                          'engine A: evaluate_bounded(%s/%d, recursion_limit=%d) (%d answers) as the first thing this process ever resolved; then a NEW engine B with the same program answers %s for %s (expected %s)\nprogram:\n%s'
                          % (FAULT_QUERIES[qi][0], FAULT_QUERIES[qi][1], lim, r[0], r[1], [q for q, _ in FAULT_QUERIES], want, show_program(FAULT_PROGRAM)),
                          key='fault|%d|%d' % (qi, lim))
        else:
            acc.n['nontrivial'] += 1
            acc.outcome(('fault', qi, r[0]))


# ---------------------------------------------------------------- (e) what a process does FIRST
# Whatever a process resolved first, on whichever engine, no engine's names become special for another
# engine.  Engine A has step/1, pair/2 and a variadic Python predicate ext; engine B's predicates are
# NAMED like A's registrations are filed (step_1, pair_2, ext_n, once_1) and like A's predicates (step/1
# with other facts).  EVERY sequence of <= 4 events over {A loads, A queries, A clears, B loads, B queries}
# is run in a process of its own (forked from a zygote that has never resolved a call); afterwards both
# engines (loaded now if they were not) must give exactly their own answers.
FIRST_A = [(F('step', A('a1')), TRUE), (F('step', A('a2')), TRUE), (F('pair', A('a'), A('b')), TRUE)]
FIRST_B = [(A('step_1'), TRUE), (F('step_1', A('b1')), TRUE), (F('pair_2', A('b2')), TRUE), (A('ext_n'), TRUE), (A('once_1'), TRUE),
           (F('step', A('bstep')), TRUE), (F('uses', X), conj(call(A('step_1')), call(F('step_1', X)), call(A('ext_n'))))]
FIRST_EVENTS = ['a_load', 'a_query', 'a_clear', 'b_load', 'b_query']
FIRST_QUERIES_A = [('step', 1), ('pair', 2), ('ext', 1), ('ext', 3), ('step_1', 0)]
FIRST_QUERIES_B = [('step_1', 0), ('step_1', 1), ('pair_2', 1), ('ext_n', 0), ('once_1', 0), ('step', 1), ('uses', 1), ('pair', 2), ('ext', 1)]
FIRST_WANT = [[2, 1, 1, 1, 0], [1, 1, 1, 1, 1, 1, 1, 0, 0]]
FIRST_ZYGOTE = r'''
import sys, json
sys.path.insert(0, %(verif)r)
from mc import impl
from mc.checks import c04
from mc.runner import in_child
pa = impl.compile_text(c04.show_program(c04.FIRST_A))
pb = impl.compile_text(c04.show_program(c04.FIRST_B))
jobs = json.load(sys.stdin)
json.dump([in_child(c04.first_case, pa, pb, ev, quiet=True) for ev in jobs], sys.stdout)
'''


def first_sequences():
    import itertools
    out = []
    for n in range(0, 5):
        out += [list(t) for t in itertools.product(range(len(FIRST_EVENTS)), repeat=n)]
    return out


def first_case(pa, pb, events):
    a, b = impl.YP(), impl.YP()
    loaded = {'a': False, 'b': False}

    def ext(*args):
        yield False

    def load(which):
        if which == 'a':
            a.load_script_from_string(pa, fn=impl.SCRIPT_FN)
            a.register_function('ext', ext, -1)
        else:
            b.load_script_from_string(pb, fn=impl.SCRIPT_FN)
        loaded[which] = True

    def ask(yp, queries):
        out = []
        for qn, k in queries:
            ws = [yp.variable() for _ in range(k)]
            try:
                out.append(sum(1 for _ in yp.query(qn, ws)))
            except Exception as e:  # noqa: BLE001
                out.append('raised %s' % type(e).__name__)
        return out
    for e in events:
        ev = FIRST_EVENTS[e]
        if ev == 'a_load':
            load('a')
        elif ev == 'b_load':
            load('b')
        elif ev == 'a_query':
            ask(a, FIRST_QUERIES_A[:2])
        elif ev == 'b_query':
            ask(b, FIRST_QUERIES_B[:2])
        elif ev == 'a_clear':
            a.clear()
            loaded['a'] = False
    for which in ('a', 'b'):
        if not loaded[which]:
            load(which)
    return [ask(a, FIRST_QUERIES_A), ask(b, FIRST_QUERIES_B)]


def run_first(spec, acc):
    import json
    import subprocess
    import sys
    from ..runner import VERIF
    _, k, n = spec
    jobs = [ev for i, ev in enumerate(first_sequences()) if i % n == k]
    p = subprocess.run([sys.executable, '-c', FIRST_ZYGOTE % {'verif': VERIF}], input=json.dumps(jobs), capture_output=True, text=True, timeout=3000)
    if p.returncode != 0:
        raise RuntimeError('zygote failed: %s' % p.stderr[-2000:])
    for ev, r in zip(jobs, json.loads(p.stdout)):
        acc.n['evaluations'] += 1
        acc.n['validated'] += 1
        acc.n['transitions'] += len(ev) + len(FIRST_QUERIES_A) + len(FIRST_QUERIES_B)
        if r != FIRST_WANT:
            acc.violation('what-one-engine-did-first-changes-another', (4, len(ev)) + tuple(ev), {'kind': 'e', 'events': ev},
                          'in a process of its own: %s; afterwards engine A answers %s for %s (expected %s) and engine B answers %s for %s (expected %s)\nprogram of A (plus a variadic Python predicate ext):\n%sprogram of B:\n%s'
                          % (', '.join(FIRST_EVENTS[e] for e in ev) or '(no events)', r[0], FIRST_QUERIES_A, FIRST_WANT[0], r[1], FIRST_QUERIES_B, FIRST_WANT[1], show_program(FIRST_A), show_program(FIRST_B)),
                          key='first|%s' % ev)
        else:
            acc.n['nontrivial'] += 1
            acc.outcome(('first', len(ev)))


# ---------------------------------------------------------------- (f) engines that come and go
# A process creates and drops engines all the time (one per request).  30 rounds: an engine with a registered Python
# predicate plugin/1, a loaded script and facts is used and dropped, the collector runs, then 40 NEW engines are
# made (whatever memory the dead engine occupied is theirs now): each of them knows nothing of plugin/1, of the
# script or of the facts, and answers only from its own fact.
def _make_plugin(secrets):
    # a plain function that holds no reference to its engine (the engine can be collected while the function lives on)
    def plugin(arg1):
        for v in secrets:
            for _ in impl.engine.unify(arg1, v):
                yield False
    return plugin


def generations():
    import gc
    bad = []
    pytext = impl.compile_text('gen(one).\ngen(two).\nuses(X) :- plugin(X), gen(_).\n')
    for rnd in range(30):
        a = impl.YP()
        secrets = ['secret_%d_%d' % (rnd, i) for i in range(2)]

        a.register_function('plugin', _make_plugin(tuple(secrets)))
        a.assert_fact(a.atom('kept'), [a.atom('by_a')])
        x = a.variable()
        if rnd % 2:
            # odd rounds: the engine also has a loaded script
            a.load_script_from_string(pytext, fn=impl.SCRIPT_FN)
            n, want = sum(1 for _ in a.query('uses', [x])), 4
        else:
            n, want = sum(1 for _ in a.query('plugin', [x])) + sum(1 for _ in a.query('kept', [x])), 3
        if n != want:
            bad.append('round %d: the first engine gives %d answers instead of %d' % (rnd, n, want))
        del a, x
        gc.collect()
        fresh = [impl.YP() for _ in range(40)]
        for i, b in enumerate(fresh):
            v = b.variable()
            got = {}
            for name in ('plugin', 'gen', 'uses', 'kept'):
                try:
                    got[name] = [impl.observe([v]) for _ in b.query(name, [v])]
                except Exception as e:  # noqa: BLE001
                    got[name] = 'raised %r' % (e,)
            b.assert_fact(b.atom('plugin'), [b.atom('own_fact')])
            own = [impl.observe([v]) for _ in b.query('plugin', [v])]
            if any(got[k] != [] for k in got) or own != [(('a', 'own_fact'),)]:
                bad.append('round %d, new engine %d (made after an engine with plugin/1, gen/1, uses/1, kept/1 was dropped and collected): before asserting anything it answers %r; after asserting plugin(own_fact) it answers plugin/1 with %r'
                           % (rnd, i, got, own))
                break
        del fresh
        gc.collect()
        if bad:
            break
    return bad



# ---------------------------------------------------------------- (g) deep suspended queries
# A suspended query occupies no stack: however deep the suspended queries of other engines (or of the same
# engine) are, a query gives the answers it gives alone.  Three actors - A and B: len/2 on a list of dA / dB
# elements, first answer taken (suspended dA / dB calls deep), later exhausted; C: len/2 on dC elements run to
# the end in one step - in EVERY merge order of their steps, for every triple of depths, on three engines and on one.
DEEP_SRC = 'len([], z).\nlen([_|T], s(N)) :- len(T, N).\n'
DEEP = {'quick': ([350], [100, 300], [100]), 'thorough': ([150, 250, 350], [100, 200, 300], [100, 300])}


def _deep_depth(t):
    n = 0
    while not isinstance(t, str):
        n += 1
        t = t[1][0]
    return n


class _DeepActor:
    def __init__(self, yp, size, oneshot):
        self.yp, self.size, self.oneshot, self.q, self.v = yp, size, oneshot, None, None

    def step(self):
        try:
            if self.q is None:
                self.v = self.yp.variable()
                self.q = self.yp.query('len', [self.yp.makelist([self.yp.atom('a')] * self.size), self.v])
                if self.oneshot:
                    return [_deep_depth(self.v.to_python()) for _ in self.q]
                next(self.q)
                return ['first', _deep_depth(self.v.to_python())]
            return ['rest'] + [_deep_depth(self.v.to_python()) for _ in self.q]
        except BaseException as e:  # noqa: BLE001
            return ['raised', type(e).__name__]


def deep_run(pytext, sizes, order, one_engine):
    yps = []
    for i in range(3):
        if one_engine and i:
            yps.append(yps[0])
            continue
        yp = impl.YP()
        yp.load_script_from_string(pytext, fn=impl.SCRIPT_FN)
        yps.append(yp)
    actors = [_DeepActor(yps[0], sizes[0], False), _DeepActor(yps[1], sizes[1], False), _DeepActor(yps[2], sizes[2], True)]
    logs = [[], [], []]
    for a in order:
        logs[a].append(actors[a].step())
    return logs


def deep_orders():
    return sorted(set(itertools.permutations([0, 0, 1, 1, 2])))


def run_deep(spec, acc):
    _, k, n, tier = spec
    pytext = impl.compile_text(DEEP_SRC)
    orders = deep_orders()
    idx = 0
    for da in DEEP[tier][0]:
        for db in DEEP[tier][1]:
            for dc in DEEP[tier][2]:
                sizes = (da, db, dc)
                want = None
                for one in (False, True):
                    for order in orders:
                        idx += 1
                        if idx % n != k:
                            continue
                        if want is None:
                            want = [deep_run(pytext, sizes, [i] * c, False)[i] for i, c in ((0, 2), (1, 2), (2, 1))]
                        acc.n['evaluations'] += 1
                        acc.n['validated'] += 1
                        acc.n['nontrivial'] += 1
                        acc.n['transitions'] += 5
                        got = deep_run(pytext, sizes, order, one)
                        if got != want:
                            acc.violation('deep-suspended-query-of-another-actor-changes-answers', (6, idx), {'kind': 'g', 'sizes': list(sizes), 'order': list(order), 'one_engine': one},
                                          'len/2 on lists of %r elements (A, B: first answer, later the rest; C: all at once) on %s, steps in the order %r:\nobserved %r\neach alone %r'
                                          % (sizes, 'ONE engine' if one else 'three engines', order, got, want), key='deep|%r|%r|%r' % (sizes, order, one))
                        else:
                            acc.outcome(('deep', repr(want)))

# ---------------------------------------------------------------- plan / run
def plan(tier):
    sh = [('a', k, 32) for k in range(32)] + [('b2', k, 32, 4 if tier == 'quick' else 5) for k in range(32)] + [('b3', k, 16, 2 if tier == 'quick' else 3) for k in range(16)]
    for variant in (0, 1, 2, 3):
        # two preemptions for the conjunction body only (about a million schedules); the findall and
        # retract bodies have more scheduling points and stay at one preemption
        bound = 2 if (tier != 'quick' and variant == 0) else 1
        # sharded by the thread that starts (choice 0) and by the position of the first later deviation
        nshard = 8 if bound == 1 else 64
        sh += [('c', variant, bound, (start, k), nshard) for start in (0, 1) for k in range(nshard)]
    sh += [('d', k, 4) for k in range(4)]
    sh += [('e', k, 4) for k in range(4)]
    sh += [('f',)]
    sh += [('g', k, 8, tier) for k in range(8)] if tier == 'quick' else [('g', k, 48, tier) for k in range(48)]
    # the conjunction and variable-fact bodies again in a process whose loggers are at DEBUG (records kept)
    for variant in (0, 3):
        sh += [('c', variant, 1, (start, k), 8, 'logged') for start in (0, 1) for k in range(8)]
    return sh


def run_shard(spec):
    if spec[0] == 'f':
        acc = Acc()
        bad = in_child(generations, quiet=True)
        acc.n['evaluations'] += 30 * 40
        acc.n['validated'] += 30 * 40
        acc.n['nontrivial'] += 30 * 40
        acc.n['transitions'] += 30 * 40 * 5
        for b in bad:
            acc.violation('a-new-engine-inherits-from-a-dead-one', (5, 0), {'kind': 'f'}, b, key='generations')
        if not bad:
            acc.outcome(('generations', 'pristine'))
        return acc
    if spec[0] == 'e':
        acc = Acc()
        run_first(spec, acc)
        return acc
    if spec[0] == 'g':
        acc = Acc()
        run_deep(spec, acc)
        return acc
    if spec[0] == 'd':
        acc = Acc()
        run_faults(spec, acc)
        return acc
    if spec[0] == 'c':
        # real threads: a schedule that deadlocks leaves blocked threads and held locks behind
        return in_child(_run_shard, spec)
    return _run_shard(spec)


def _run_shard(spec):
    acc = Acc()
    kind = spec[0]
    if kind == 'a':
        _, k, n = spec
        texts = {nm: compile_cached(show_program(cl)) for nm, cl in SCRIPTS.items()}
        solo = {}
        idx = 0
        for i1, s1 in enumerate(MENU):
            for i2, s2 in enumerate(MENU):
                idx += 1
                if idx % n != k:
                    continue
                if (i1 >= SHARED_FROM) != (i2 >= SHARED_FROM) and min(i1, i2) not in (4, 11):
                    # the scripts about one shared function object are paired with each other and with
                    # the two scripts that register a function of their own
                    continue
                try:
                    for tag, i, s in (('A', i1, s1), ('B', i2, s2)):
                        if (tag, i) not in solo:
                            solo[(tag, i)] = alone(texts, s, tag)
                except Exception as e:  # noqa: BLE001
                    acc.n['evaluations'] += 1
                    acc.n['validated'] += 1
                    acc.violation('run-alone-raises:' + impl.exc_sig(e), (0, idx, 0), {'kind': 'a', 's1': i1, 's2': i2, 'order': []},
                                  'script %s run alone raised %r' % (s, e), key='alone|%d|%d' % (i1, i2))
                    continue
                want = (solo[('A', i1)], solo[('B', i2)])
                variants = [(('A', 'B'), want)]
                if any(op[0] in ('clear', 'atom') for op in s1 + s2):
                    # both engines use the SAME atom names (an engine that is cleared must not take
                    # anything away from another engine that uses the same vocabulary)
                    for tag, i, s_ in (('S', i1, s1), ('S', i2, s2)):
                        if (tag, i) not in solo:
                            solo[(tag, i)] = alone(texts, s_, tag)
                    variants.append((('S', 'S'), (solo[('S', i1)], solo[('S', i2)])))
                for oi, (order, (tags, want)) in enumerate((o, v) for o in merge_orders(len(s1) + 1, len(s2) + 1) for v in variants):
                    acc.n['evaluations'] += 1
                    acc.n['validated'] += 1
                    acc.n['transitions'] += len(order)
                    try:
                        with watchdog(60):
                            got = run_merge(texts, s1, s2, order, tags)
                    except Hang as e:
                        got = ('hang', str(e))
                    except Exception as e:  # noqa: BLE001
                        got = ('raised', impl.exc_sig(e), repr(e))
                    if got != want:
                        who = 'A' if (got[0] != want[0]) else 'B'
                        acc.violation('two-engines:actor-log-differs', (0, idx, oi), {'kind': 'a', 's1': i1, 's2': i2, 'order': order, 'tags': list(tags)},
                                      'engine A runs script %d %s\nengine B runs script %d %s\nstep order (0 = A, 1 = B, first step of each creates its engine): %s\n'
                                      'actor %s observes\n  %r\nbut alone it observes\n  %r' % (i1, s1, i2, s2, order, who, got[0 if who == 'A' else 1] if len(got) == 2 else got, want[0 if who == 'A' else 1]),
                                      key='%d|%d|%s' % (i1, i2, order))
                        continue
                    if 0 < sum(1 for a_, b_ in zip(order, order[1:]) if a_ != b_):
                        acc.n['nontrivial'] += 1
                    acc.outcome(got)
                if idx % 29 == 0:
                    acc.sample({'part': 'a', 'script_A': repr(s1), 'script_B': repr(s2), 'merge_orders': oi + 1}, limit=1)
    elif kind in ('b2', 'b3'):
        _, k, n, steps = spec
        pytext = compile_cached(show_program(PROG_B))
        arity = 2 if kind == 'b2' else 3
        pool = list(range(len(QUERIES))) if arity == 2 else TRIPLE_SUBSET
        solo = {}
        idx = 0
        for combo in itertools.product(pool, repeat=arity):
            idx += 1
            if idx % n != k:
                continue
            goals = [QUERIES[c] for c in combo]
            try:
                for c in combo:
                    if c not in solo:
                        solo[c] = run_queries(pytext, [QUERIES[c]], [0] * steps)[0]
            except Exception as e:  # noqa: BLE001
                acc.n['evaluations'] += 1
                acc.n['validated'] += 1
                acc.violation('run-alone-raises:' + impl.exc_sig(e), (1, arity, idx, 0), {'kind': 'b', 'combo': list(combo), 'order': [], 'steps': steps},
                              'query %s run alone raised %r' % (show_term(QUERIES[c]), e), key='alone|%s' % (list(combo),))
                continue
            want = [solo[c] for c in combo]
            for oi, order in enumerate(multi_orders([steps] * arity)):
                acc.n['evaluations'] += 1
                acc.n['validated'] += 1
                acc.n['transitions'] += len(order)
                try:
                    got = run_queries(pytext, goals, order)
                except Exception as e:  # noqa: BLE001
                    got = ['raised ' + impl.exc_sig(e)]
                if got != want:
                    acc.violation('one-engine:suspended-queries-interfere', (1, arity, idx, oi), {'kind': 'b', 'combo': list(combo), 'order': order, 'steps': steps},
                                  'queries %s on ONE engine, next() in the order %s\nobserved logs %r\nalone each gives %r' % ([show_term(g) for g in goals], order, got, want),
                                  key='%s|%s' % (list(combo), order))
                    continue
                acc.n['nontrivial'] += 1
                acc.outcome(tuple(got))
            if idx % 17 == 0:
                acc.sample({'part': 'b', 'queries': [show_term(g) for g in goals], 'merge_orders': oi + 1}, limit=1)
    else:
        _, variant, bound, (start, k), n = spec[:5]
        logged = len(spec) > 5
        if logged:
            import collections
            import logging

            class Keep(logging.Handler):
                records = collections.deque(maxlen=5000)

                def emit(self, record):
                    self.records.append(record)
            root = logging.getLogger()
            lg = logging.getLogger('yldprolog')
            root.addHandler(Keep())
            root.setLevel(logging.DEBUG)
            lg.setLevel(logging.DEBUG)
            lg.propagate = True
        pytext = compile_cached(show_program(PROG_C))
        # reference: each body alone
        try:
            solo = [b() for b in thread_bodies(pytext, variant)]
            solo2 = [b() for b in thread_bodies(pytext, variant)]
        except Exception as e:  # noqa: BLE001
            acc.n['evaluations'] += 1
            acc.n['validated'] += 1
            acc.violation('run-alone-raises:' + impl.exc_sig(e), (2, variant, 0), {'kind': 'c', 'variant': variant, 'schedule': []},
                          'the thread body (variant %d) run alone on a fresh engine raised %r' % (variant, e), key='alone|%d' % variant)
            return acc
        if solo != solo2:
            # fresh engines, same script, run one after the other: the second pair of engines
            # sees something the first pair left behind
            acc.n['evaluations'] += 1
            acc.n['validated'] += 1
            acc.violation('engines-share-state:sequential-runs-differ', (2, variant, 0), {'kind': 'c', 'variant': variant, 'schedule': []},
                          'the thread bodies (variant %d) run alone on fresh engines give %r the first time and %r the second time' % (variant, solo, solo2),
                          key='seq|%d' % variant)
            return acc
        outcomes = set()

        def check(x):
            acc.n['evaluations'] += 1
            acc.n['validated'] += 1
            acc.n['transitions'] += len(x.points)
            if sched.preemptions(x):
                acc.n['nontrivial'] += 1
            got = [x.results.get(0), x.results.get(1)]
            if x.errors or got != solo:
                acc.violation('threads:log-differs', (2, variant, len(x.choices)), {'kind': 'c', 'variant': variant, 'schedule': compress(x.choices)},
                              'two threads, each with its own engine (variant %d); schedule with preemptions at points %s\n'
                              'observed %r %s\nalone %r' % (variant, [i for i, c in enumerate(x.choices) if c], got,
                                                             {t: repr(e) for t, e in x.errors.items()} or '', solo),
                              key='%d|%s' % (variant, compress(x.choices)))
            else:
                acc.outcome((variant, repr(got)))
        try:
            _threads_part(acc, pytext, variant, bound, start, k, n, check)
        except sched.Deadlock as e:
            # the blocked threads cannot be recovered: the shard ends here
            acc.n['evaluations'] += 1
            acc.n['validated'] += 1
            acc.violation('threads:deadlock', (2, variant, len(e.choices)), {'kind': 'c', 'variant': variant, 'schedule': compress(e.choices)},
                          'two threads, each with its own engine (variant %d); schedule with preemptions at points %s: %s\n'
                          'each body alone terminates with %r' % (variant, [i for i, c in enumerate(e.choices) if c], e, solo),
                          key='%d|deadlock' % variant)
    return acc


def _threads_part(acc, pytext, variant, bound, start, k, n, check):
        # determinism of the explorer itself: the default schedule twice
        if k == 0 and start == 0:
            x1 = sched.Baton(thread_bodies(pytext, variant), [], in_scope).run()
            x2 = sched.Baton(thread_bodies(pytext, variant), [], in_scope).run()
            if x1.choices != x2.choices or x1.results != x2.results:
                raise RuntimeError('the same schedule did not reproduce: %d vs %d points' % (len(x1.points), len(x2.points)))
            acc.info['scheduling_points_default_schedule_variant_%d' % variant] = len(x1.points)
        st = sched.explore(lambda: thread_bodies(pytext, variant), in_scope, bound, check,
                           first_filter=(lambda i: i % n == k), root=[start])
        if k != 0:
            # the undeviated schedule is explored by every shard: count it once
            acc.n['evaluations'] -= 1
            acc.n['validated'] -= 1
        if k == 0:
            acc.sample({'part': 'c', 'variant': variant, 'preemption_bound': bound, 'executions_in_this_shard': st['executions']}, limit=3)


def compress(choices):
    return [[i, c] for i, c in enumerate(choices) if c]


def expand(pairs, n=None):
    if not pairs:
        return []
    m = max(i for i, _ in pairs) + 1
    out = [0] * m
    for i, c in pairs:
        out[i] = c
    return out


def replay(case):
    if case['kind'] == 'g':
        pytext = impl.compile_text(DEEP_SRC)
        sizes = tuple(case['sizes'])
        want = [deep_run(pytext, sizes, [i] * c, False)[i] for i, c in ((0, 2), (1, 2), (2, 1))]
        got = deep_run(pytext, sizes, case['order'], case['one_engine'])
        return [] if got == want else [('deep-suspended-query-of-another-actor-changes-answers', 'observed %r\neach alone %r' % (got, want))]
    if case['kind'] == 'f':
        return [('a-new-engine-inherits-from-a-dead-one', b) for b in in_child(generations, quiet=True)]
    if case['kind'] == 'e':
        import json
        import subprocess
        import sys
        from ..runner import VERIF
        p = subprocess.run([sys.executable, '-c', FIRST_ZYGOTE % {'verif': VERIF}], input=json.dumps([case['events']]), capture_output=True, text=True, timeout=600)
        r = json.loads(p.stdout)[0]
        return [] if r == FIRST_WANT else [('what-one-engine-did-first-changes-another', 'engine A answers %s, engine B answers %s' % (r[0], r[1]))]
    if case['kind'] == 'd':
        acc = Acc()
        import json
        import subprocess
        import sys
        from ..runner import VERIF
        p = subprocess.run([sys.executable, '-c', FAULT_ZYGOTE % {'verif': VERIF}], input=json.dumps([(case['query'], case['limit'])]), capture_output=True, text=True, timeout=600)
        r = json.loads(p.stdout)[0]
        return [] if r[1] == [2, 2, 2, 8] else [('fault-in-one-engine-changes-another', 'engine B answers %s' % (r[1],))]
    if case['kind'] == 'a':
        texts = {nm: impl.compile_text(show_program(cl)) for nm, cl in SCRIPTS.items()}
        s1, s2 = MENU[case['s1']], MENU[case['s2']]
        tg = tuple(case.get('tags', ('A', 'B')))
        want = (alone(texts, s1, tg[0]), alone(texts, s2, tg[1]))
        try:
            got = run_merge(texts, s1, s2, case['order'], tuple(case.get('tags', ('A', 'B'))))
        except Exception as e:  # noqa: BLE001
            got = ('raised', repr(e))
        return [] if got == want else [('two-engines:actor-log-differs', 'observed %r\nalone %r' % (got, want))]
    if case['kind'] == 'b':
        pytext = impl.compile_text(show_program(PROG_B))
        goals = [QUERIES[c] for c in case['combo']]
        want = [run_queries(pytext, [g], [0] * case['steps'])[0] for g in goals]
        got = run_queries(pytext, goals, case['order'])
        return [] if got == want else [('one-engine:suspended-queries-interfere', 'observed %r\nalone %r' % (got, want))]
    pytext = impl.compile_text(show_program(PROG_C))
    solo = [b() for b in thread_bodies(pytext, case['variant'])]
    try:
        x = sched.Baton(thread_bodies(pytext, case['variant']), expand([tuple(p) for p in case['schedule']]), in_scope).run()
    except sched.Deadlock as e:
        return [('threads:deadlock', '%s\nalone %r' % (e, solo))]
    got = [x.results.get(0), x.results.get(1)]
    if x.errors or got != solo:
        return [('threads:log-differs', 'observed %r %r\nalone %r' % (got, x.errors, solo))]
    return []
