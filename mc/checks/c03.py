"""C03 - backtracking leaves no trace, however a query ends."""
import gc
import itertools

from .. import bodies, impl
from ..diff import compile_cached, show_answers, _j, _t
from ..refprolog import Ref, Cyclic, Unspecified, Budget, canon, unify_nsto
from ..runner import Acc, watchdog, Hang
from ..terms import A, C, F, V, L, NIL, call, conj, TRUE, FAIL, show_program, show_term, term_vars, pp
from . import c01, c09, c20

ID = 'C03'
LEVEL = 'fault_enumeration'
RULE = ('corpus of (program, query, pre-existing bindings): A body trees with <= N operators in the C05 context; B '
        'single-clause predicates over all head-argument shapes x query shapes; C the meta-call programs of C09 (once, '
        'findall, \\+, call/N), the builtin goals also asked directly through the API and wrapped in call/1; D bare unify(t1,t2) over a term universe; E clauses that assert/retract (fresh engine per '
        'run); F programs whose fact predicates are Python predicates (returning generators, and returning cursor objects - iterators with a close() that the application keeps referenced), closed / dropped after every number of answers and with an exception at every event; H dynamic facts containing variables used by clauses whose later goals bind them in several ways; corpus A also in a process where every logger is at DEBUG and a handler keeps the log records in memory. For each: a fault-free run counts the answers n, '
        'then one run per ending: exhaustion, and for every k in 0..n {close() after the k-th answer, dropping the last '
        'reference, throw() by the consumer}; for F additionally one run per event j at which a Python predicate raises. '
        'After every ending EVERY live engine variable (weak set hook) must be in the binding state it had before the '
        'generator was created (internal ones unbound), the answers seen must be a prefix of RefProlog\'s, the thrown '
        'object must come back unchanged, and a second complete run on the same engine and variables must give the full '
        'reference sequence. G bind/undo histories: every sequence of <= D operations "unify one of 11 equations (variable-variable links, structures, list cells with variable tails)" / "undo the most recent unification" with all variables looked up after every operation; after every undo every variable must be in exactly the state (including the identity of the variables its value refers to) it had before the matching unification. evaluations = endings explored; states = distinct (answer-sequence, ending) outcomes; '
        'non-trivial = abandoned while bindings were active (k >= 1)')
ASSUMPTIONS = ['YLDPROLOG_VERIF=1 hook: engine.Variable registers itself in a weak set',
               'dropping a generator is followed by gc.collect() before inspection (finalisation of a dropped generator '
               'is allowed to wait for the collector); close(), throw() and exhaustion are inspected immediately',
               'RefProlog gives the expected answers']
EXHAUSTIVE = True


def bounds(tier):
    return {'tree_operators': 1 if tier == 'quick' else 2, 'unify_universe': '2 variables' if tier == 'quick' else '3 variables, depth<=1'}


class ConsumerError(Exception):
    pass


def live_variables():
    ws = impl.engine._VERIF_VARIABLES
    if ws is None:
        raise RuntimeError('the YLDPROLOG_VERIF hook is not active')
    return list(ws)


def var_state(v):
    """binding state of a variable, sensitive to WHICH variables its value refers to (two
    values that differ only in the identity of an unbound variable are different states)"""
    val = v.get_value()
    if val is v:
        return ('unbound',)
    return ('bound', raw_ids(val))


def raw_ids(t):
    t = impl.engine.get_value(t)
    if isinstance(t, impl.Variable):
        return ('v', id(t))
    if isinstance(t, impl.Atom):
        return ('a', t.name())
    if isinstance(t, impl.Functor):
        return ('f', t._name, tuple(raw_ids(a) for a in t._args))
    return ('c', repr(t))


def snapshot():
    gc.collect()
    return {id(v): (v, var_state(v)) for v in live_variables()}


def leftover(snap):
    """-> description of the first variable whose state differs from the snapshot, or None"""
    for v in live_variables():
        st = var_state(v)
        old = snap.get(id(v))
        if old is None:
            if st != ('unbound',):
                return 'a variable created during the run is still bound to %r' % (st[1],)
        elif old[1] != st:
            return 'a variable that was %r before the run is now %r' % (old[1], st)
    return None


class Scenario:
    """one (program, goal, pre-bindings) item of the corpus"""

    def __init__(self, label, build, goal, pre=(), rebuild=False, ref_build=None, anon=()):
        self.label = label
        self.build = build          # () -> engine (fresh)
        self.ref_build = ref_build  # () -> Ref
        self.goal = goal
        self.pre = tuple(pre)
        self.rebuild = rebuild
        self.anon = anon

    def fresh(self):
        yp = self.build()
        vm = {}
        held = []
        for l, r in self.pre:
            g = iter(impl.engine.unify(impl.to_engine(yp, l, vm), impl.to_engine(yp, r, vm)))
            next(g)
            held.append(g)
        args = [impl.to_engine(yp, x, vm) for x in (self.goal[2] if self.goal[0] == 'f' else ())]
        obs = [impl.to_engine(yp, ('v', k), vm) for k in term_vars(self.goal)]
        return yp, args, obs, held

    def expected(self):
        ref = self.ref_build()
        env = {}
        for l, r in self.pre:
            env = unify_nsto(l, r, env)
            if env is None:
                raise Unspecified('inconsistent pre-binding')
        obs = [('v', k) for k in term_vars(self.goal)]
        ref.steps = 0
        out = []
        try:
            for o in ref.iter_query(self.goal, obs, env):
                out.append(o)
                if len(out) > 12:
                    raise Budget('too many answers')
        except RecursionError:
            raise Budget('depth')
        return out


# what the consumer throws into a suspended query: its own exception class, EVERY exception class the
# package itself defines (the engine must not mistake them for its own signals), KeyboardInterrupt, KeyError
THROWN = ('throw', 'throw-engine-exception', 'throw-compiler-error', 'throw-keyboard-interrupt', 'throw-key-error')


def thrown_instance(mode):
    from yldprolog import errors
    return {'throw': lambda: ConsumerError('thrown by the consumer'), 'throw-engine-exception': lambda: impl.engine.YPException('thrown by the consumer'),
            'throw-compiler-error': lambda: errors.PrologSyntaxError('consumer', 1, 0, 'thrown by the consumer'), 'throw-keyboard-interrupt': KeyboardInterrupt,
            'throw-key-error': lambda: KeyError('thrown by the consumer')}[mode]()


def run_endings(sc, acc, index):
    """all endings of one scenario"""
    try:
        exp = sc.expected()
    except (Cyclic, Unspecified, Budget) as e:
        acc.n['evaluations'] += 1
        acc.skipped[type(e).__name__] += 1
        return
    if sc.anon:
        exp = [anon_bags(sc, o) for o in exp]
    n = len(exp)
    endings = [('exhaust', None)] + [(m, k) for k in range(n + 1) for m in ('close', 'drop') + tuple(THROWN)]
    yp = None
    for mode, k in endings:
        acc.n['evaluations'] += 1
        acc.n['validated'] += 1
        case = {'label': sc.label, 'mode': mode, 'k': k}
        key = '%s|%s|%s' % (sc.label, mode, k)
        try:
            with watchdog(60):
                if yp is None or sc.rebuild:
                    yp, args, obs, held = sc.fresh()
                r = one_ending(sc, yp, args, obs, exp, mode, k)
                if r is None and not sc.rebuild:
                    r = second_run(sc, yp, args, obs, exp)
        except Hang as e:
            r = ('hang', str(e))
            yp = None
        except Exception as e:  # noqa: BLE001
            r = ('harness-visible-exception:' + impl.exc_sig(e), 'raised %r' % (e,))
            yp = None
        if r is not None:
            acc.violation(r[0], index + (mode, k if k is not None else -1), dict(case, replay=sc.label), '%s\nending: %s%s\n%s'
                          % (sc.label, mode, '' if k is None else ' after answer %d of %d' % (k, n), r[1]), key=key)
            yp = None
            continue
        acc.n['transitions'] += (k if k is not None else n) + 1
        if k:
            acc.n['nontrivial'] += 1
        acc.outcome((tuple(exp[:k]) if k is not None else tuple(exp), mode))


def anon_last(o):
    from ..diff import anonymize
    return anonymize(o, [len(o) - 1])


def _has_findall(t):
    return t[0] == 'f' and (t[1] == 'findall' or any(_has_findall(x) for x in t[2]))


def anon_bags(sc, o):
    """observations with the bag variables of findall goals anonymised: the last observed variable (the bag of
    the goal when it is a findall), and every variable of the goal that is named like an inner bag"""
    from ..diff import anonymize
    names = [k for k in term_vars(sc.goal)]
    idx = [i for i, k in enumerate(names) if k in sc.anon]
    if not idx:
        idx = [len(o) - 1]
    return anonymize(o, [i for i in idx if i < len(o)])


def one_ending(sc, yp, args, obs, exp, mode, k):
    snap = snapshot()
    name = sc.goal[1]
    q = yp.query(name, args)
    seen = []
    sent = None
    try:
        if mode == 'exhaust':
            for _ in q:
                seen.append(impl.observe(obs))
                if len(seen) > len(exp) + 1:
                    break
        else:
            it = iter(q)
            while len(seen) < k:
                next(it)
                seen.append(impl.observe(obs))
            if mode == 'close':
                q.close()
            elif mode in THROWN:
                sent = thrown_instance(mode)
                try:
                    q.throw(sent)
                except StopIteration:
                    return ('thrown-exception-swallowed', 'the generator swallowed the %s thrown by the consumer after answer %d' % (type(sent).__name__, k))
                except BaseException as e:  # noqa: BLE001
                    if e is not sent:
                        return ('thrown-exception-replaced', 'the consumer threw %r and got back a different object %r' % (sent, e))
                else:
                    return ('thrown-exception-swallowed', 'the generator produced another answer instead of propagating the %s thrown by the consumer after answer %d' % (type(sent).__name__, k))
            it = None
    except StopIteration:
        return ('fewer-answers', 'the query stopped after %d answers; reference: %s' % (len(seen), show_answers(exp)))
    q = None
    if mode == 'drop':
        gc.collect()
    if sc.anon:
        seen = [anon_bags(sc, o) for o in seen]
    want = exp if mode == 'exhaust' else exp[:k]
    if seen != want:
        return ('answers-differ', 'answers seen %s, reference %s' % (show_answers(seen), show_answers(want)))
    bad = leftover(snap)
    if bad:
        return ('binding-left-behind:' + mode, bad)
    return None


def second_run(sc, yp, args, obs, exp):
    got = []
    q = yp.query(sc.goal[1], args)
    for _ in q:
        got.append(impl.observe(obs))
        if len(got) > len(exp) + 1:
            q.close()
            break
    if sc.anon:
        got = [anon_bags(sc, o) for o in got]
    if got != exp:
        return ('second-run-differs', 're-running the query on the same engine and variables gives %s, expected %s' % (show_answers(got), show_answers(exp)))
    return None


# ------------------------------------------------------------------ corpus
def prebindings(goal):
    vs = term_vars(goal)
    out = [()]
    if vs:
        v0 = ('v', vs[0])
        out.append(((v0, A('a')),))
        out.append(((v0, F('f', V('Pb'))),))
        out.append(((v0, C(1)),))
        if len(vs) > 1:
            out.append(((v0, ('v', vs[1])),))
            out.append(((('v', vs[-1]), C(2)),))
    return out


def make_builders(scripts, facts=()):
    """scripts: [(clauses, shared)]"""
    texts = []
    for cl, shared in scripts:
        t = show_program(cl)
        texts.append(compile_cached(t) if shared else impl.compile_text(t))

    def build():
        yp = impl.YP()
        for py in texts:
            yp.load_script_from_string(py, fn=impl.SCRIPT_FN)
        for t in facts:
            yp.assert_fact(yp.atom(t[1]), [impl.to_engine(yp, x, {}) for x in (t[2] if t[0] == 'f' else ())])
        return yp

    def ref_build():
        ref = Ref(4000, 40)
        for cl, _ in scripts:
            ref.consult(cl)
        for t in facts:
            ref.assert_fact(t)
        return ref
    return build, ref_build


def corpus_trees(maxops):
    idx = 0
    for n in range(maxops + 1):
        for t in bodies.trees(n):
            tr, op = bodies.cut_positions(t)
            if op:
                continue
            yield idx, t
            idx += 1


def scen_tree(t):
    body, k = bodies.instantiate(t)
    prog, nargs = bodies.context_program(body, k)
    qv = [V('A%d' % i) for i in range(1, nargs + 1)] + [V('Z')]
    goal = F('c', *qv)
    seven = [C(7)] * nargs
    facts = [F('p', *seven) if seven else A('p')]
    build, ref_build = make_builders([(bodies.LEAF_PROGRAM, True), (prog, False)], facts)
    label = 'program:\n%s%sdynamic fact %s\nquery %s' % (show_program(bodies.LEAF_PROGRAM), show_program(prog), show_term(facts[0]), show_term(goal))
    return [Scenario(label + '\npre-bound: %s' % ([(pp(l), pp(r)) for l, r in pre],), build, goal, pre, ref_build=ref_build)
            for pre in prebindings(goal)]


def corpus_heads(tier):
    hs = c01.head_shapes()
    idx = 0
    bodies1 = [TRUE] + list(c01.GOALS)
    for h in hs:
        for b in bodies1:
            yield idx, (h,), b, c01.QUERY_SHAPES
            idx += 1
    qs2 = c01.QUERY3 if tier == 'quick' else c01.QUERY_SHAPES
    for h1 in hs:
        for h2 in hs:
            for b in ([TRUE] if tier == 'quick' else [TRUE, c01.GOALS[2], c01.GOALS[3]]):
                yield idx, (h1, h2), b, qs2
                idx += 1


def scen_head(head, body, qshapes):
    args = c01.fix_anon(head)
    clause = (F('p', *args), body)
    build, ref_build = make_builders([(c01.SUPPORT, True), ([clause], False)])
    out = []
    for tup in itertools.product(qshapes, repeat=len(args)):
        goal = F('p', *tup)
        label = 'program:\n%s%squery %s' % (show_program(c01.SUPPORT), show_program([clause]), show_term(goal))
        out.append(Scenario(label, build, goal, (), ref_build=ref_build))
    return out


def corpus_meta(nesting):
    idx = 0
    for _, goal, tag, g2, mk, usesL, via_var, cont in c09.programs(nesting):
        yield idx, goal, tag, g2, mk, usesL, via_var, cont
        idx += 1


def scen_meta(goal, tag, g2, mk, usesL, via_var, cont):
    case, clause = c09.make_case(goal, tag, g2, mk, usesL, via_var, cont)
    facts = [t for t, _ in c09.FACTS]
    build, ref_build = make_builders([(c09.SUPPORT, True), ([clause], False)], facts)
    out = []
    for q in case.queries[:2]:
        label = 'program:\n%s(+ the C09 support predicates)\nquery %s' % (show_program([clause]), show_term(q))
        out.append(Scenario(label, build, q, (), ref_build=ref_build, anon=('Lq',) if usesL else ()))
    if via_var is False and cont is None:
        # the builtin goal itself, asked DIRECTLY through the API (yp.query('once', [G]) ...) - and
        # wrapped in call/1 - instead of from a compiled clause
        b = mk(g2)
        if b[0] == 'call' and b[1][0] == 'f':
            for direct in (b[1], F('call', b[1])):
                label = 'the C09 support predicates; query through the API: %s' % show_term(direct)
                # every bag of a findall is observed anonymised (whether its instances share unbound variables with
                # the caller is not fixed by the property): the outermost one and those of inner findalls
                out.append(Scenario(label, build, direct, (), ref_build=ref_build, anon=('L', 'L2', 'Bag1', 'Bag2') if _has_findall(direct) else ()))
    return out


def unify_universe(tier):
    X, Y, Z = V('X'), V('Y'), V('Z')
    base = [X, Y, A('a'), A('b'), C(1)] + ([Z, NIL] if tier != 'quick' else [])
    d1 = list(base) + [F('f', t) for t in base] + [F('f', t, u) for t in base for u in base] + [F('.', t, u) for t in base[:4] for u in base[:4]]
    # a constant that is not equal to itself (a missing sensor reading): bound like any other value, unbound like any other
    d1 += [NAN, F('f', NAN), F('f', X, NAN), F('f', NAN, X), F('g', X, Y, NAN)]
    return d1


NAN = C(float('nan'))


def run_unify_pair(acc, index, t1, t2):
    """bare unify generator: exhaustion / close / drop / throw after 0 or 1 answers"""
    X, Y, Z = V('X'), V('Y'), V('Z')
    try:
        env = unify_nsto(t1, t2, {})
    except Cyclic:
        acc.n['evaluations'] += 1
        acc.skipped['cyclic'] += 1
        return
    n = 0 if env is None else 1
    yp = impl.YP()
    vm = {}
    vs = [impl.to_engine(yp, v, vm) for v in (X, Y, Z)]
    e1, e2 = impl.to_engine(yp, t1, vm), impl.to_engine(yp, t2, vm)
    exp = canon([X, Y, Z], env) if env is not None else None
    for mode, k in [('exhaust', None)] + [(m, kk) for kk in range(n + 1) for m in ('close', 'drop', 'throw')] + [('never-started-close', 0), ('never-started-drop', 0)]:
        acc.n['evaluations'] += 1
        acc.n['validated'] += 1
        snap = snapshot()
        g = iter(impl.engine.unify(e1, e2))
        bad = None
        if mode.startswith('never-started'):
            # the unification is made but NEVER started; meanwhile ANOTHER unification binds its variables and sits at
            # its answer; abandoning the one that never started changes nothing
            others = [iter(impl.engine.unify(v, yp.atom('bound_by_another_%d' % i))) for i, v in enumerate(vs)]
            try:
                for o in others:
                    next(o)
            except StopIteration:
                # X, Y or Z is not free any more: an earlier ending of this pair left a binding behind (reported there)
                for o in reversed(others):
                    o.close()
                acc.violation('unify:binding-left-behind:before-' + mode, index + (mode, 0), {'unify': [_j(t1), _j(t2)], 'mode': mode, 'k': 0},
                              'unify(%s, %s): before the %s scenario X, Y, Z are not all unbound: %r' % (pp(t1), pp(t2), mode, impl.observe(vs)), key='%s|%s|%s|0' % (pp(t1), pp(t2), mode))
                continue
            before = impl.observe(vs)
            if mode.endswith('close') and hasattr(g, 'close'):
                g.close()
            g = None
            gc.collect()
            if impl.observe(vs) != before:
                bad = ('never-started-unification-undoes-the-bindings-of-another', 'X, Y, Z were bound by other unifications to %r; after the unification that was never started was %s they read %r'
                       % (before, 'closed' if mode.endswith('close') else 'dropped', impl.observe(vs)))
            for o in reversed(others):
                o.close()
            if bad is None:
                lo = leftover(snap)
                if lo:
                    bad = ('binding-left-behind:' + mode, lo)
            if bad:
                acc.violation('unify:' + bad[0], index + (mode, 0), {'unify': [_j(t1), _j(t2)], 'mode': mode, 'k': 0},
                              'unify(%s, %s), %s: %s' % (pp(t1), pp(t2), mode, bad[1]), key='%s|%s|%s|0' % (pp(t1), pp(t2), mode))
            else:
                acc.n['transitions'] += 2
                acc.outcome(('never-started', mode))
            continue
        try:
            cnt = 0
            if mode == 'exhaust':
                for _ in g:
                    cnt += 1
                    if impl.observe(vs) != exp:
                        bad = ('answers-differ', 'bindings at the yield %r, expected %r' % (impl.observe(vs), exp))
                if cnt != n:
                    bad = ('answers-differ', '%d yields, expected %d' % (cnt, n))
            else:
                for _ in range(k):
                    next(g)
                if mode == 'close':
                    g.close()
                elif mode == 'throw':
                    sent = ConsumerError('x')
                    thrower = getattr(g, 'throw', None)
                    if thrower is not None:
                        try:
                            thrower(sent)
                        except ConsumerError as e:
                            if e is not sent:
                                bad = ('thrown-exception-replaced', 'different object came back')
                        except StopIteration:
                            bad = ('thrown-exception-swallowed', 'swallowed')
                    else:
                        g.close()
        except StopIteration:
            bad = ('fewer-answers', 'unify stopped early')
        g = None
        if mode == 'drop':
            gc.collect()
        if bad is None:
            lo = leftover(snap)
            if lo:
                bad = ('binding-left-behind:' + mode, lo)
        if bad:
            acc.violation('unify:' + bad[0], index + (mode, -1 if k is None else k), {'unify': [_j(t1), _j(t2)], 'mode': mode, 'k': k},
                          'unify(%s, %s), ending %s %s: %s' % (pp(t1), pp(t2), mode, k, bad[1]), key='%s|%s|%s|%s' % (pp(t1), pp(t2), mode, k))
            continue
        acc.n['transitions'] += 1 + (k or 0)
        if k:
            acc.n['nontrivial'] += 1
        acc.outcome((exp, mode, k))


def corpus_db(tier):
    from . import c14
    idx = 0
    gmax = 2 if tier == 'quick' else 3
    for n in range(1, gmax + 1):
        for gs in itertools.product(range(len(c14.GOALS)), repeat=n):
            if not any(g in (2, 3, 4, 5, 6, 10) for g in gs):
                continue
            yield idx, gs
            idx += 1


def scen_db(gs):
    from . import c14
    clause = (F('t', c14.X, c14.Y), conj(*[c14.GOALS[g] for g in gs]))
    facts = [F('p', t) for t in c14.INITIAL[2]]
    build, ref_build = make_builders([([clause], False)], facts)
    goal = F('t', V('A'), V('B'))
    label = 'program:\n%sinitial facts p(a) p(b)\nquery %s (fresh engine per ending)' % (show_program([clause]), show_term(goal))
    return [Scenario(label, build, goal, (), rebuild=True, ref_build=ref_build)]


def corpus_varfacts():
    """H: dynamic facts that contain variables, used by clauses whose later goals bind what the
    fact left open (several solutions, so the bindings are made and undone repeatedly)"""
    from . import c13
    Y = V('Y')
    stores = [[F('p', ('v', ('_', 1)))], [F('p', F('f', ('v', ('_', 1)))), F('p', A('b'))], [F('p', F('g', Y, Y))],
              [F('p', ('v', ('_', 1))), F('p', ('v', ('_', 2)))]]
    goals = [F('e', V('Q')), F('u', V('Q1'), V('Q2')), F('p', V('Q')), F('e', F('g', V('Q1'), V('Q2')))]
    idx = 0
    for st in stores:
        for g in goals:
            yield idx, st, g
            idx += 1


def scen_varfacts(store, goal):
    from . import c13
    build, ref_build = make_builders([([c13.UCLAUSE] + c13.ECLAUSES, True)], store)
    label = 'program:\n%sdynamic facts %s\nquery %s' % (show_program([c13.UCLAUSE] + c13.ECLAUSES), [show_term(t) for t in store], show_term(goal))
    return [Scenario(label + '\npre-bound: %s' % ([(pp(l), pp(r)) for l, r in pre],), build, goal, pre, ref_build=ref_build)
            for pre in prebindings(goal)]


def run_python_faults(acc, index, t):
    """F: all fact predicates are Python generators; one run per event j at which one raises"""
    body, k = bodies.instantiate(t)
    prog, nargs = bodies.context_program(body, k)
    qv = [V('A%d' % i) for i in range(1, nargs + 1)] + [V('Z')]
    goal = F('c', *qv)
    used = c20.used_preds(prog)
    if not used:
        return
    text = show_program(prog)
    pytext = impl.compile_text(text)
    ref = Ref(4000, 40)
    ref.consult([c for cl in c20.PROLOG.values() for c in cl])
    ref.consult(prog)
    obs = [('v', kk) for kk in term_vars(goal)]
    exp, st = ref.query(goal, obs)
    if st != 'complete':
        return

    def run(fire, style='inferred', stop_after=None, ending=None):
        yp = impl.YP()
        rest = [c for key, cl in c20.PROLOG.items() if key not in used for c in cl]
        if rest:
            yp.load_script_from_string(compile_cached(show_program(rest)), fn=impl.SCRIPT_FN)
        yp.load_script_from_string(pytext, fn=impl.SCRIPT_FN)
        events = {'count': 0, 'fire': fire, 'exc': None, 'args': []}
        del c20.OPEN_CURSORS[:]
        for key in used:
            fn, ar = c20.make_py(yp, key, style, False, events)
            yp.register_function(key[0], fn)
        vm = {}
        args = [impl.to_engine(yp, x, vm) for x in goal[2]]
        ob = [impl.to_engine(yp, v, vm) for v in obs]
        snap = snapshot()
        seen = []
        caught = None
        q = yp.query(goal[1], args)
        try:
            if stop_after == 0:
                pass
            else:
                for _ in q:
                    seen.append(impl.observe(ob))
                    if stop_after is not None and len(seen) >= stop_after:
                        break
                    if len(seen) > len(exp) + 1:
                        break
        except c20.Injected as e:
            caught = e
        if ending == 'close':
            q.close()
        q = None
        return events, seen, caught, leftover(snap)
    # abandonment: close / drop after every number of answers, the Python predicates returning
    # generators or cursor objects (iterators with a close() that the application keeps referenced)
    for style in ('inferred', 'inferred-cursor'):
        for kk in range(0, len(exp) + 1):
            for ending in ('close', 'drop'):
                acc.n['evaluations'] += 1
                acc.n['validated'] += 1
                try:
                    ev, seen, caught, lo = run(None, style, kk, ending)
                except Exception as e:  # noqa: BLE001
                    acc.violation('python-predicates:raises:' + impl.exc_sig(e), index + (style, kk, ending), {'tree': bodies.show_tree(t), 'fault': 0},
                                  'program (fact predicates %s are Python predicates, %s):\n%squery %s raised %r' % ([list(u) for u in used], style, text, show_term(goal), e),
                                  key='%s|%s|raises' % (bodies.show_tree(t), style))
                    continue
                if lo or seen != exp[:len(seen)]:
                    acc.violation('binding-left-behind:python-predicate:' + ending if lo else 'python-predicates:answers-differ', index + (style, kk, ending), {'tree': bodies.show_tree(t), 'fault': 0},
                                  'program (fact predicates %s are Python predicates that return %s):\n%squery %s %s after %d answer(s): %s' % (
                                      [list(u) for u in used], 'a cursor object (iterator with close(), also referenced by the application)' if style == 'inferred-cursor' else 'a generator',
                                      text, show_term(goal), {'close': 'closed', 'drop': 'dropped'}[ending], kk, lo or 'answers %s, expected a prefix of %s' % (show_answers(seen), show_answers(exp))),
                                  key='%s|%s|%d|%s' % (bodies.show_tree(t), style, kk, ending))
                    continue
                acc.n['transitions'] += len(seen) + 1
                acc.outcome((tuple(seen), 'python-' + ending))
    events, seen, caught, lo = run(None)
    m = events['count']
    for j in range(1, m + 1):
        acc.n['evaluations'] += 1
        acc.n['validated'] += 1
        acc.n['fault_points'] += 1
        ev, seen, caught, lo = run(j)
        label = 'program (fact predicates %s are Python generators):\n%squery %s\na Python predicate raises at its event %d of %d' % (
            [list(u) for u in used], text, show_term(goal), j, m)
        bad = None
        if caught is None or caught is not ev['exc']:
            bad = ('python-exception-not-propagated', 'consumer saw %r, raised object %r' % (caught, ev['exc']))
        elif seen != exp[:len(seen)]:
            bad = ('answers-differ', 'answers before the exception %s are not a prefix of %s' % (show_answers(seen), show_answers(exp)))
        elif lo:
            bad = ('binding-left-behind:python-exception', lo)
        if bad:
            acc.violation(bad[0], index + ('fault', j), {'tree': bodies.show_tree(t), 'fault': j}, label + '\n' + bad[1], key='%s|fault%d' % (bodies.show_tree(t), j))
            continue
        acc.n['transitions'] += len(seen) + 1
        acc.n['nontrivial'] += 1
        acc.outcome((tuple(seen), 'python-raise'))


NSH = 32


def plan(tier):
    kinds = ['A', 'B', 'C', 'D', 'E', 'F', 'H']
    hd = 5 if tier == 'quick' else 6
    return ([(kind, k, NSH, tier) for kind in kinds for k in range(NSH)] + [('hist', hd, k, 2 * NSH) for k in range(2 * NSH)]
            + [('logged', 'A', k, NSH, tier) for k in range(NSH)])


def run_shard(spec):
    if spec[0] == 'logged':
        # the same corpus in a process whose logging is configured the way test runners and services do:
        # every logger at DEBUG, records kept in memory (a buffering handler) - a library may log, but
        # what it hands to the logging system must not keep bindings alive
        import collections
        import logging

        class Keep(logging.Handler):
            records = collections.deque(maxlen=20000)

            def emit(self, record):
                self.records.append(record)
        root = logging.getLogger()
        lg = logging.getLogger('yldprolog')
        saved = (root.level, lg.level, lg.propagate)
        h = Keep()
        root.addHandler(h)
        root.setLevel(logging.DEBUG)
        lg.setLevel(logging.DEBUG)
        lg.propagate = True
        try:
            acc = run_shard(spec[1:])
        finally:
            root.removeHandler(h)
            root.setLevel(saved[0])
            lg.setLevel(saved[1])
            lg.propagate = saved[2]
            h.records.clear()
        for sig in list(acc.groups):
            acc.groups['debug-logging-with-buffered-records:' + sig] = acc.groups.pop(sig)
        return acc
    acc = Acc()
    # everything allocated so far (memoised tree lists, modules) is long-lived: keep it out of the
    # collections that snapshot() forces, which then only look at what the runs allocate
    gc.collect()
    gc.freeze()
    if spec[0] == 'hist':
        from .c15 import run_histories
        run_histories(spec, acc, 'restore', 'history:state-not-')
        return acc
    kind, k, n, tier = spec
    if kind == 'A':
        for idx, t in corpus_trees(1 if tier == 'quick' else 2):
            if idx % n != k:
                continue
            try:
                scs = scen_tree(t)
            except Exception as e:  # noqa: BLE001
                acc.n['evaluations'] += 1
                acc.n['validated'] += 1
                acc.violation('compile:' + impl.exc_sig(e), ('A', idx), {'tree': bodies.show_tree(t)}, '%s: %r' % (bodies.show_tree(t), e))
                continue
            for si, sc in enumerate(scs):
                run_endings(sc, acc, ('A', idx, si))
            if len(acc.samples) < 1 and idx > 40:
                acc.sample({'corpus': 'A', 'tree': bodies.show_tree(t), 'pre_bindings_tried': len(scs),
                            'endings': 'exhaust + {close,drop,throw} x every k'})
    elif kind == 'B':
        for idx, head, body, qs in corpus_heads(tier):
            if idx % n != k:
                continue
            for si, sc in enumerate(scen_head(head, body, qs)):
                run_endings(sc, acc, ('B', idx, si))
    elif kind == 'C':
        for idx, *rest in corpus_meta(0 if tier == 'quick' else 1):
            if idx % n != k:
                continue
            for si, sc in enumerate(scen_meta(*rest)):
                run_endings(sc, acc, ('C', idx, si))
    elif kind == 'D':
        U = unify_universe(tier)
        for i1, t1 in enumerate(U):
            if i1 % n != k:
                continue
            for i2, t2 in enumerate(U):
                run_unify_pair(acc, ('D', i1, i2), t1, t2)
    elif kind == 'E':
        for idx, gs in corpus_db(tier):
            if idx % n != k:
                continue
            for si, sc in enumerate(scen_db(gs)):
                run_endings(sc, acc, ('E', idx, si))
    elif kind == 'H':
        for idx, store, goal in corpus_varfacts():
            if idx % n != k:
                continue
            for si, sc in enumerate(scen_varfacts(store, goal)):
                run_endings(sc, acc, ('H', idx, si))
    else:
        for idx, t in corpus_trees(1 if tier == 'quick' else 2):
            if idx % n != k:
                continue
            run_python_faults(acc, ('F', idx), t)
    return acc


def replay(case):
    # endings are cheap: re-run the whole shard family that contains the label is not
    # possible from the label alone, so the replay re-executes the recorded scenario kinds
    acc = Acc()
    if 'history' in case:
        from .. import bindhist as bh
        r = bh.run_history(tuple(case['history']))
        return [(r[1], r[2])] if r[0] == 'violation' else []
    if 'unify' in case:
        run_unify_pair(acc, ('D', 0, 0), _t(case['unify'][0]), _t(case['unify'][1]))
    elif 'tree' in case:
        t = parse_tree(case['tree'])
        if 'fault' in case:
            run_python_faults(acc, ('F', 0), t)
        else:
            for si, sc in enumerate(scen_tree(t)):
                run_endings(sc, acc, ('A', 0, si))
    else:
        return replay_by_label(case)
    return [(sig, g['detail']) for sig, g in acc.groups.items()]


def parse_tree(s):
    for n in range(4):
        for t in bodies.trees(n):
            if bodies.show_tree(t) == s:
                return t
    raise ValueError(s)


def replay_by_label(case):
    """find the scenario with this label in the corpus (both tiers) and re-run its endings"""
    acc = Acc()
    label = case.get('replay')
    for tier in ('quick', 'thorough'):
        gens = [(scen_tree(t) for _, t in corpus_trees(1 if tier == 'quick' else 2)),
                (scen_head(h, b, q) for _, h, b, q in corpus_heads(tier)),
                (scen_meta(*r) for _, *r in corpus_meta(0 if tier == 'quick' else 1)),
                (scen_db(gs) for _, gs in corpus_db(tier)), (scen_varfacts(st, g) for _, st, g in corpus_varfacts())]
        for gen in gens:
            for scs in gen:
                for sc in scs:
                    if sc.label == label:
                        run_endings(sc, acc, ('R', 0, 0))
                        return [(sig, g['detail']) for sig, g in acc.groups.items()]
    return []
