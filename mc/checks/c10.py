"""C10 - text outside the grammar is rejected, never partially compiled."""
import ast
import itertools
import re

from .. import impl
from .. import refgrammar as rg
from ..runner import Acc, watchdog, Hang

ID = 'C10'
LEVEL = 'model_checking'
RULE = ('(bytes: files whose content is not valid UTF-8 - 8 byte sequences at 7 places incl. inside quoted atoms and comments - are rejected by compile_prolog_from_file) (large: sources of 1200 and 4000 facts, each offered three times - twice as a string, once as a file - with each of 10 tokens that cannot start a clause inserted behind fact 11, 999, 1000, 1001, the middle and the last-but-one fact: rejected as a whole) (deep: a term nested 100..1000 levels - compound, list, parentheses, list tails - alone, between facts, as a rule head, in a rule body, and with one token too many: the compilation raises or every clause head is defined, never only the clauses behind the deep one) (before a text outside the language is compiled, the text obtained by gluing its blank-separated words together - often a valid program - is compiled, so that nothing remembered from one text can vouch for another) seed sentences: EVERY clause or directive of the documented grammar with <= N tokens over one representative '
        'per token class, every two-clause program built from the clauses of <= 4 tokens, and the repository\'s sample '
        'files; for each seed EVERY single edit: delete / duplicate token i, swap tokens i,i+1, replace token i by the '
        'other members of its class, insert each of the 21 token kinds and each of 32 foreign character sequences (ASCII and non-ASCII look-alikes of lexicon characters) at '
        'every position, truncate at every character offset, append every proper prefix of another seed after the final '
        'full stop. RefGrammar (independent lexer + recogniser transcribed from prolog.g4) decides membership: outside '
        'the language => compile_prolog_from_string must raise; inside => it raises or returns code whose module-level '
        'function definitions are exactly the name_arity of the clause heads. states = distinct (membership, outcome, '
        'head set) classes; transitions = compiler invocations; non-trivial = the edited text is outside the language')
ASSUMPTIONS = ['RefGrammar is a manual transcription of prolog.g4 (EOF required after the last clause); its agreement '
               'with the generated lexer+parser run in strict mode is measured on every text and reported',
               'only single edits of bounded seeds are covered',
               'the reference grammar raises the interpreter recursion limit of its process to 6000 for its own use, so the edit families run with that limit; the deep family sets the default limit (1000) around each compilation']

FOREIGN = ['#', '$', '&', '?', '"', '\\', '{', '}', '~', '^', '@', "'", '% comment without newline', '*',
           # characters outside ASCII that are not in the lexicon although something similar is: no-break and
           # ideographic space, full-width punctuation (incl. the comment character), a ligature, a superscript
           # digit, zero-width space, byte-order mark, line/paragraph separators, NEL, a combining accent
           '\u00a0', '\u3000', '\uff08', '\uff09', '\uff0e', '\uff0c', '\uff05', '\ufb01', '\u00b2', '\u200b', '\ufeff',
           '\u2028', '\u2029', '\u0085', '\u0301', '\uff41', '\uff21', '\uff11']
CLASS_MEMBERS = {'ATOM': ['b', 'a_B1', '_'], 'VARIABLE': ['_', 'Y', '_G1'], 'NUMERAL': ['00', '42'],
                 'STRING': ["''", "'it\\'s'", "'two words'"], 'UNOP': ['+'], 'BINOP': ['\\=', '==', '=<', '>=', '<', '\\==']}
IDENT = re.compile(r'[A-Za-z_][A-Za-z0-9_]*\Z')


def bounds(tier):
    return {'seed_tokens': 7 if tier == 'quick' else 9, 'two_clause_programs_from_clauses_of_tokens': 4}


def seeds(maxtok):
    out = []
    for n in range(2, maxtok + 1):
        for s in sorted(rg.sentences('clauseordirective', n)):
            out.append(s)
    return out


def spell_tokens(kinds):
    return [rg.REPRESENTATIVE.get(k, k) for k in kinds]


def edits(kinds):
    """all single edits of one seed; yields (tag, text)"""
    toks = spell_tokens(kinds)
    n = len(toks)
    yield 'seed', ' '.join(toks)
    for i in range(n):
        yield 'delete', ' '.join(toks[:i] + toks[i + 1:])
        yield 'duplicate', ' '.join(toks[:i + 1] + toks[i:])
        if i + 1 < n:
            yield 'swap', ' '.join(toks[:i] + [toks[i + 1], toks[i]] + toks[i + 2:])
        for alt in CLASS_MEMBERS.get(kinds[i], ()):
            yield 'replace', ' '.join(toks[:i] + [alt] + toks[i + 1:])
    for i in range(n + 1):
        for k in rg.TOKEN_KINDS:
            yield 'insert', ' '.join(toks[:i] + [rg.REPRESENTATIVE.get(k, k)] + toks[i:])
        for f in FOREIGN:
            yield 'foreign', ' '.join(toks[:i] + [f] + toks[i:])
    text = ' '.join(toks)
    for j in range(len(text)):
        yield 'truncate', text[:j]
    # glued spellings (no white space between tokens) exercise the lexer's maximal munch
    yield 'glued', ''.join(toks)


SAMPLE_DIRS = ['compiler/test', 'tests/data']


def sample_files():
    import os
    out = []
    for d in SAMPLE_DIRS:
        p = os.path.join(impl.REPO, d)
        if not os.path.isdir(p):
            continue
        for fn in sorted(os.listdir(p)):
            if fn.endswith('.prolog') and fn != 'longstring.prolog':
                with open(os.path.join(p, fn), encoding='utf8') as f:
                    out.append((d + '/' + fn, f.read()))
    return out


def sample_edits(text):
    """single edits on a sample file at token granularity (deletion, duplication, truncation)"""
    yield 'seed', text
    try:
        toks = rg.lex(text)
    except rg.LexError:
        return
    sp = [t for _, t in toks]
    for i in range(len(sp)):
        yield 'delete', ' '.join(sp[:i] + sp[i + 1:])
        yield 'duplicate', ' '.join(sp[:i + 1] + sp[i:])
        yield 'truncate', ' '.join(sp[:i])
        for f in (')', ',', '.', "'", '#'):
            yield 'insert', ' '.join(sp[:i] + [f] + sp[i:])


def strict_antlr_accepts(text):
    """the repository's generated lexer+parser driven in strict mode (calibration only)"""
    import antlr4
    from antlr4.error.ErrorListener import ErrorListener
    from yldprolog.prologLexer import prologLexer
    from yldprolog.prologParser import prologParser

    class Stop(Exception):
        pass

    class Raising(ErrorListener):
        def syntaxError(self, recognizer, offendingSymbol, line, column, msg, e):
            raise Stop()
    try:
        lexer = prologLexer(antlr4.InputStream(text))
        lexer.removeErrorListeners()
        lexer.addErrorListener(Raising())
        stream = antlr4.CommonTokenStream(lexer)
        parser = prologParser(stream)
        parser.removeErrorListeners()
        parser.addErrorListener(Raising())
        parser.program()
        return stream.LA(1) == antlr4.Token.EOF
    except Stop:
        return False


def defined_functions(pytext):
    tree = ast.parse(pytext)
    return sorted(n.name for n in tree.body if isinstance(n, ast.FunctionDef))


_GLUE = re.compile(r'(\w)[ \t\n]+(\w)')


def check_text(text):
    """-> (status, sig, detail, outcome) status in ok|violation"""
    r = rg.analyse(text)
    raised = None
    out = None
    if not r.accepted and _GLUE.search(text):
        # the same characters WITHOUT the blanks between two words (a different text, often a valid
        # one: "p(a b)." -> "p(ab).") are compiled first: what the compiler did for one text is no
        # reason to accept another
        try:
            impl.compile_text(_GLUE.sub(r'\1\2', text))
        except Exception:  # noqa: BLE001
            pass
    try:
        out = impl.compile_text(text)
    except Exception as e:  # noqa: BLE001
        raised = e
    if not r.accepted:
        if raised is None:
            cls = r.reason.split(':')[0].split(' ')[0]
            return ('violation', 'compiled-text-outside-grammar:' + ('lexical' if cls == 'lexical' else 'no-final-full-stop' if cls == 'input' else 'not-a-clause'),
                    'text: %r\nnot in the language (%s) but compile_prolog_from_string returned code defining %s'
                    % (text, r.reason, _safe_defs(out)), ('out', 'compiled'))
        return ('ok', None, None, ('out', 'raised'))
    if raised is not None:
        return ('ok', None, None, ('in', 'raised', type(raised).__name__))
    if r.heads is None or not all(IDENT.match(nm) for nm, _ in r.heads):
        return ('ok', None, None, ('in', 'compiled', 'heads-not-plain'))
    want = sorted(set('%s_%d' % h for h in r.heads))
    try:
        got = defined_functions(out)
    except SyntaxError:
        return ('ok', None, None, ('in', 'compiled', 'output-not-python(C11)'))
    if got != want:
        return ('violation', 'clauses-omitted-or-altered',
                'text: %r\nclause heads: %s\nfunctions defined by the output: %s' % (text, want, got), None)
    return ('ok', None, None, ('in', 'compiled', tuple(want)))


def _safe_defs(out):
    try:
        return defined_functions(out)
    except SyntaxError:
        return '(output is not Python)'


def process(acc, index, tag, text, calibrate):
    acc.n['evaluations'] += 1
    acc.n['validated'] += 1
    acc.n['transitions'] += 1
    try:
        with watchdog(60):
            st, sig, detail, outcome = check_text(text)
    except Hang as e:
        st, sig, detail, outcome = 'violation', 'hang', '%r: %s' % (text, e), None
    if st == 'violation':
        acc.violation(sig, index, {'text': text}, detail, key=text)
        return
    acc.outcome(outcome)
    if outcome[0] == 'out':
        acc.n['nontrivial'] += 1
    acc.n['edit:' + tag] += 1
    if calibrate:
        ant = strict_antlr_accepts(text)
        acc.n['calibration:%s/%s' % ('ref-accepts' if outcome[0] == 'in' else 'ref-rejects',
                                     'strict-antlr-accepts' if ant else 'strict-antlr-rejects')] += 1
        if outcome[0] == 'out' and ant and len(acc.info.setdefault('ref_rejects_but_strict_antlr_accepts', [])) < 5:
            acc.info['ref_rejects_but_strict_antlr_accepts'].append(text)


# ---- nesting beyond what the parser can take: all or nothing ----------------------------------------
# A clause nested deeper than the parser's stack allows makes the compilation fail - or, if the compiler
# copes, every clause of the text is compiled; never only the part of the text behind the deep clause.
DEEP_LEVELS = [100, 200, 300, 330, 360, 400, 500, 700, 1000]
DEEP_SHAPES = [('f(', ')'), ('[', ']'), ('(', ')'), ('[a|', ']')]
DEEP_CONTEXTS = [('alone', '%s', ['p/1']), ('between-facts', 'a(1).\n%s\nb(2).\n', ['a/1', 'p/1', 'b/1']),
                 ('rule-head', 'a(1).\n%s', ['a/1', 'p/1', 'b/1']), ('rule-body', 'a(1).\nq(X) :- r(X), %s\nb(2).\n', ['a/1', 'q/1', 'b/1']),
                 ('one-token-too-many', 'a(1).\n%s', None)]


def deep_cases():
    idx = 0
    for lv in DEEP_LEVELS:
        for si in range(len(DEEP_SHAPES)):
            for ci in range(len(DEEP_CONTEXTS)):
                yield idx, (lv, si, ci)
                idx += 1


def deep_text(case):
    lv, si, ci = case
    o, c = DEEP_SHAPES[si]
    term = o * lv + 'a' + c * lv
    ctx, tpl, heads = DEEP_CONTEXTS[ci]
    if ctx == 'rule-head':
        inner = 'p(%s) :- q(2).\nb(3).\n' % term
    elif ctx == 'rule-body':
        inner = 'p(%s).' % term
    elif ctx == 'one-token-too-many':
        inner = 'p(%s) :- :- q(2).\nb(3).\n' % term
    else:
        inner = 'p(%s).' % term
    return tpl % inner, heads


def check_deep(case):
    import sys
    text, heads = deep_text(case)
    old = sys.getrecursionlimit()
    try:
        # under the interpreter's DEFAULT limit (the reference grammar raises it for its own use)
        sys.setrecursionlimit(1000)
        out = impl.compile_text(text)
    except Exception as e:  # noqa: BLE001
        return ('ok', None, None, ('deep', 'raised', type(e).__name__))
    finally:
        sys.setrecursionlimit(old)
    what = '%d levels of %s...%s, context %s' % (case[0], DEEP_SHAPES[case[1]][0], DEEP_SHAPES[case[1]][1], DEEP_CONTEXTS[case[2]][0])
    if heads is None:
        return ('violation', 'compiled-text-outside-grammar:deep', '%s: the text (not in the language: ":- :-") was compiled; text starts %r' % (what, text[:60]), None)
    try:
        got = defined_functions(out)
    except (SyntaxError, RecursionError, MemoryError, ValueError):
        return ('ok', None, None, ('deep', 'compiled', 'output-not-python(C11)'))
    want = sorted(set(h.replace('/', '_') for h in heads))
    if got != want:
        return ('violation', 'clauses-omitted-or-altered:deep', '%s: clause heads %s, functions defined by the output %s; text starts %r' % (what, want, got, text[:60]), None)
    return ('ok', None, None, ('deep', 'compiled', tuple(want)))


# ---- a stray token somewhere in a LARGE source --------------------------------------------------------
# 1200 and 2100 facts; each of the tokens that cannot start a clause inserted behind fact 11, 999, 1000, 1001, the
# middle one and the last-but-one: the text is outside the language and must be rejected as a whole
BIG_SIZES = [1200, 4000]
BIG_TOKENS = ['.', ')', ']', ',', ';', '|', '->', '/', '\\+', '(']


def big_cases():
    idx = 0
    for n in BIG_SIZES:
        for pos in (11, 999, 1000, 1001, n // 2, n - 1):
            for ti in range(len(BIG_TOKENS)):
                yield idx, (n, pos, ti)
                idx += 1


def check_big(case):
    n, pos, ti = case
    facts = ['f%d(a%d).' % (i % 7, i) for i in range(n)]
    text = '\n'.join(facts[:pos] + [BIG_TOKENS[ti]] + facts[pos:]) + '\n'
    out = None
    first = None
    # the same text is offered three times (twice as a string, once as a file): a text that was rejected is
    # rejected again - whatever the compiler kept from the first attempt
    for attempt in ('first', 'second', 'file'):
        try:
            if attempt == 'file':
                from . import c16
                out = c16.compile_from_file(text)
            else:
                out = impl.compile_text(text)
            break
        except Exception as e:  # noqa: BLE001
            first = first or type(e).__name__
    else:
        return ('ok', None, None, ('big', 'raised', first))
    if attempt != 'first':
        return ('violation', 'compiled-text-outside-grammar:rejected-text-accepted-on-a-later-attempt', 'a source of %d facts with the stray token %r behind fact %d was rejected (%s) and then, offered again (%s attempt), compiled'
                % (n, BIG_TOKENS[ti], pos, first, attempt), None)
    try:
        have = len(re.findall(r"atom\('a\d+'\)", out))
    except Exception:  # noqa: BLE001
        have = -1
    return ('violation', 'compiled-text-outside-grammar:large-source', 'a source of %d facts with the stray token %r behind fact %d was compiled (%d of the %d facts are in the returned code)'
            % (n, BIG_TOKENS[ti], pos, have, n), None)


# ---- files that are not text at all ---------------------------------------------------------------------------
# A source file whose bytes are not valid UTF-8 is not a program: compile_prolog_from_file rejects it, wherever the
# bad bytes are - between tokens, inside a quoted atom, inside a comment, at the very end (a truncated character).
BAD_BYTES = [b'\xff', b'\xfe\xff', b'\xc3', b'\xe4\xba', b'\x80', b'\xc3\x28', b'\xed\xa0\x80', b'\xf8\x88\x80\x80\x80']
BYTE_PLACES = [('between-tokens', b'foo(a). %s bar(b).\n'), ('in-quoted-atom', b"colour('caf%s', red).\ncolour('cafe', blue).\n"), ('in-comment', b'foo(a).\n%% note %s here\nbar(b).\n'),
               ('at-the-end', b"foo(a).\nbar('x%s"), ('at-the-end-of-a-comment', b'foo(a).\n%% %s'), ('first-bytes', b'%s foo(a).\n'), ('in-atom-name', b'fo%so(a).\n')]


def byte_cases():
    idx = 0
    for bi in range(len(BAD_BYTES)):
        for pi in range(len(BYTE_PLACES)):
            yield idx, (bi, pi)
            idx += 1


def check_bytes(case):
    import os
    import tempfile
    bi, pi = case
    data = BYTE_PLACES[pi][1].replace(b'%s', BAD_BYTES[bi]).replace(b'%%', b'%')
    fd, path = tempfile.mkstemp(suffix='.prolog', prefix='verif-c10-')
    try:
        with os.fdopen(fd, 'wb') as f:
            f.write(data)
        try:
            out = impl.compiler.compile_prolog_from_file(path, impl.Ctx)
        except Exception as e:  # noqa: BLE001
            return ('ok', None, None, ('bytes', 'raised', type(e).__name__))
    finally:
        os.unlink(path)
    return ('violation', 'compiled-text-outside-grammar:not-utf8', 'a file holding the bytes %r (%s: %r is not UTF-8) was compiled; defined: %s'
            % (data, BYTE_PLACES[pi][0], BAD_BYTES[bi], _safe_defs(out)), None)


NSH = 64


def plan(tier):
    return [(tier, kind, k, NSH) for kind in ('seeds', 'pairs', 'samples') for k in range(NSH)] + [(tier, 'deep', k, 4) for k in range(4)] + [(tier, 'big', k, 16) for k in range(16)] + [(tier, 'bytes', 0, 1)]


def run_shard(spec):
    tier, kind, k, n = spec
    acc = Acc()
    maxtok = 7 if tier == 'quick' else 9
    if kind == 'bytes':
        for idx, case in byte_cases():
            acc.n['evaluations'] += 1
            acc.n['validated'] += 1
            acc.n['transitions'] += 1
            st, sig, detail, outcome = check_bytes(case)
            if st == 'violation':
                acc.violation(sig, (5, idx), {'bytes': list(case)}, detail, key='bytes|%s' % (list(case),))
            else:
                acc.outcome(outcome)
                acc.n['nontrivial'] += 1
        return acc
    if kind == 'big':
        for idx, case in big_cases():
            if idx % n != k:
                continue
            acc.n['evaluations'] += 1
            acc.n['validated'] += 1
            acc.n['transitions'] += 1
            st, sig, detail, outcome = check_big(case)
            if st == 'violation':
                acc.violation(sig, (4, idx), {'big': list(case)}, detail, key='big|%s' % (list(case),))
            else:
                acc.outcome(outcome)
                acc.n['nontrivial'] += 1
        return acc
    if kind == 'deep':
        for idx, case in deep_cases():
            if idx % n != k:
                continue
            acc.n['evaluations'] += 1
            acc.n['validated'] += 1
            acc.n['transitions'] += 1
            st, sig, detail, outcome = check_deep(case)
            if st == 'violation':
                acc.violation(sig, (3, idx), {'deep': list(case)}, detail, key='deep|%s' % (list(case),))
            else:
                acc.outcome(outcome)
                acc.n['nontrivial'] += 1
        return acc
    if kind == 'seeds':
        sd = seeds(maxtok)
        others = [' '.join(spell_tokens(s)) for s in seeds(4)]
        for idx, kinds in enumerate(sd):
            if idx % n != k:
                continue
            seen = set()
            for tag, text in edits(kinds):
                if text in seen:
                    continue
                seen.add(text)
                process(acc, (0, idx), tag, text, calibrate=True)
            # append every proper prefix of another (short) seed after the final full stop
            base = ' '.join(spell_tokens(kinds))
            for o in others[idx % 7::7]:
                ot = o.split(' ')
                for j in range(1, len(ot)):
                    process(acc, (0, idx), 'append-prefix', base + ' ' + ' '.join(ot[:j]), calibrate=False)
            if idx % 97 == 0:
                acc.sample({'seed': base, 'single_edits_checked': len(seen)}, limit=1)
    elif kind == 'pairs':
        sd = seeds(4)
        idx = 0
        for a in sd:
            for b in sd:
                idx += 1
                if idx % n != k:
                    continue
                ta, tb = spell_tokens(a), spell_tokens(b)
                both = ta + tb
                process(acc, (1, idx), 'seed', ' '.join(both), calibrate=True)
                for i in range(len(both)):
                    process(acc, (1, idx), 'delete', ' '.join(both[:i] + both[i + 1:]), calibrate=False)
    else:
        for idx, (fn, text) in enumerate(sample_files()):
            if idx % n != k:
                continue
            for tag, t in sample_edits(text):
                process(acc, (2, idx), tag, t, calibrate=(tag == 'seed'))
    return acc


def replay(case):
    if 'bytes' in case:
        st, sig, detail, _ = check_bytes(tuple(case['bytes']))
        return [(sig, detail)] if st == 'violation' else []
    if 'big' in case:
        st, sig, detail, _ = check_big(tuple(case['big']))
        return [(sig, detail)] if st == 'violation' else []
    if 'deep' in case:
        st, sig, detail, _ = check_deep(tuple(case['deep']))
        return [(sig, detail)] if st == 'violation' else []
    st, sig, detail, _ = check_text(case['text'])
    if st == 'violation':
        return [(sig, detail)]
    return []
