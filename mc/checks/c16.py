"""C16 - source literals and Python values denote the same terms."""
import itertools

from .. import impl
from ..refprolog import canon, resolve
from ..runner import Acc, watchdog, Hang
from ..terms import A, C, F, V, L, NIL, TRUE, call, show_clause, show_program, show_term, show_atom, term_vars, pp
from .c15 import ref_py

ID = 'C16'
LEVEL = 'model_checking'
RULE = ('(layout: the clause p(X,Y) :- q(X,_), r(_,Y) with its two anonymous variables at every pair of grid positions, lines 2..25 [40] x columns 0..15 [25]; comments: every ordered pair of 23 comment-like payloads of other languages in comment lines and quoted atoms around four facts) (long atoms of 250..1030 characters with a character that needs escaping at every offset around 256, 512, 1024; compounds named like operators with numeral arguments) every atom text of length <= 3 [thorough: 4] over the 23 characters {/ * a Z 0 _ space \' " LF CR # % ( ) , . : é 五 ﬁ(ligature) ％(full-width) and a character outside the BMP} (quoted when '
        'the lexer requires it, also quoted when it does not), and every term of depth <= 2 over {6 atom texts, 0 7 123, '
        'f/1, g/2, zero-argument compounds f() and a quoted one, [] [t] [t,u] [t|V] [t,u|V], _, named variables} - and pairs of literals that print alike (a compound or list next to the quoted atom spelling it) - each literal compiled as a fact argument, as a head '
        'argument of a rule, and as a body-goal argument, each batch also compiled from a file holding the same text (identical code required), then (1) [positions: fact argument, head argument, right-hand side of =, goal argument, and the last two again behind a disjunction / an if-then-else] read back through a query: structure equals the '
        'literal\'s term and to_python equals the reference value (name / int / list / (name,[args]) / None) - every returned value is then changed in place by the caller (all lists inside appended to), which no later conversion on the same engine may show; (every check also on an engine that was used and cleared before the program was loaded) (2) the '
        'same term built with atom/functor/listpair/makelist through the API is used as query argument: exactly one '
        'answer, and the compiled literal read back unifies with it; (3) atoms: yp.atom(n) is yp.atom(n), also when the atom reaches the caller through findall/3, once/1, call/2 or a dynamic fact; atoms and whole terms built on two '
        'engines unify with each other and with each other\'s compiled literals and dynamic facts, also on an engine that was cleared before loading; (4) every _ is a distinct variable: every ordered pair of 7 patterns with _ (argument, inside a compound, list element, list tail) in one clause, in head and body, and the triples of the list patterns. states = distinct (literal class, '
        'outcome) observations; transitions = queries; non-trivial = the literal needs quoting, is a list or contains a variable')
ASSUMPTIONS = ['the generator starts from a TERM, prints it in the documented syntax (\' written as \\\', no other '
               'backslashes) and knows the value to_python must return (RefLiteral)',
               'to_python of partial lists is unspecified and observed structurally only']
CHARS = ['a', 'Z', '0', '_', ' ', "'", '"', '\n', '\r', '#', '%', '(', ')', ',', '.', ':', 'é', '五', '\ufb01', '\uff05', '\U0001f600', '/', '*']
BATCH = 30


def bounds(tier):
    return {'atom_text_length': 3 if tier == 'quick' else 4, 'term_depth': 2}


def atom_texts(maxlen):
    for n in range(1, maxlen + 1):
        for tup in itertools.product(CHARS, repeat=n):
            yield ''.join(tup)


def base_terms():
    atoms = [A('a'), A('Z'), A('a b'), A("it's"), A('é五'), A('\n'), A('a_Z0')]
    return atoms + [C(0), C(7), C(123), ('v', ('_', 0)), NIL, V('X'), F('f'), F('a b')]


def depth1():
    B = base_terms()
    out = list(B)
    out += [F('f', t) for t in B]
    out += [F('g', t, u) for t in B for u in B]
    out += [L([t]) for t in B] + [L([t, u]) for t in B for u in B]
    out += [L([t], V('T')) for t in B] + [L([t, u], V('T')) for t in B[:8] for u in B[:8]]
    out += [F('a b', t) for t in B[:6]] + [F("it's", t, t) for t in B[:4]]
    # compounds whose NAME is an operator or punctuation symbol (quoted in the source): a compound like
    # any other, also with numerals as arguments
    for nm in ('-', '+', '*', '/', ',', ';', '->', ':-', '|', '[]', '{}', '!'):
        out += [F(nm, C(7)), F(nm, C(0), C(7)), F(nm, A('a'))]
    return out


def depth2():
    d1 = depth1()
    sub = d1[::23]
    out = [F('f', t) for t in d1] + [L([t]) for t in d1] + [L([t], V('T')) for t in d1]
    out += [F('g', t, u) for t in sub for u in sub] + [L([t, u]) for t in sub for u in sub]
    return out


def renumber(t):
    """give every anonymous variable occurrence its own key"""
    n = [0]

    def go(t):
        if t[0] == 'v' and isinstance(t[1], tuple):
            n[0] += 1
            return ('v', ('_', n[0]))
        if t[0] == 'f':
            return ('f', t[1], tuple(go(x) for x in t[2]))
        return t
    return go(t)


def literals(tier):
    """(class, term, forced_text or None)"""
    for s in atom_texts(3 if tier == 'quick' else 4):
        if '\\' in s:
            continue
        yield 'atom', A(s), None
    # unquoted atoms that the lexer accepts as they are, and the same atom quoted
    for s in ['a', 'aZ', 'a0', 'a_', 'truex', 'failx', 'a_Z0', 'abc']:
        yield 'atom-quoted-needlessly', A(s), "'%s'" % s
    # LONG atoms: a character that needs escaping in the generated code (line break, quote, non-ASCII) at
    # every offset around the multiples of 256 up to 1100
    for special in ('\n', "'", '"', '\u00e9', '\r'):
        for k in list(range(250, 262)) + list(range(506, 518)) + list(range(1018, 1030)):
            yield 'long-atom', A('a' * k + special + 'zq ot in b'), None
    # confusable literals in ONE compilation unit: a compound / list and the quoted atom whose text is
    # that term's source spelling, side by side in the same positions
    for t in depth1():
        try:
            txt = show_term(t)
        except Exception:  # noqa: BLE001
            continue
        if t[0] != 'f' or term_vars(t) or '\\' in txt or len(txt) > 24:
            continue
        yield 'confusable', F('pair', F('w', A(txt)), F('w', t), L([A(txt)]), L([t])), None
        yield 'confusable', F('pair', F('w', t), F('w', A(txt))), None
    for t in depth1():
        yield 'term1', renumber(t), None
    for t in depth2():
        yield 'term2', renumber(t), None


def to_engine_makelist(yp, t, vm):
    """like impl.to_engine but proper lists are built with makelist and functors with the
    functorN compatibility constructors"""
    k = t[0]
    if k == 'f' and t[1] == '.' and len(t[2]) == 2:
        items = []
        cur = t
        while cur[0] == 'f' and cur[1] == '.' and len(cur[2]) == 2:
            items.append(cur[2][0])
            cur = cur[2][1]
        if cur == NIL:
            mine = [to_engine_makelist(yp, x, vm) for x in items]
            before = list(mine)
            r = yp.makelist(mine)
            if len(mine) != len(before) or any(a is not b for a, b in zip(mine, before)):
                # the Python list handed to makelist is the caller's (a row of its own table): it is read, not consumed
                raise CallersListChanged('yp.makelist changed the Python list it was given: %d element(s) before, %d after' % (len(before), len(mine)))
            return r
        r = to_engine_makelist(yp, cur, vm)
        for x in reversed(items):
            r = yp.listpair(to_engine_makelist(yp, x, vm), r)
        return r
    if k == 'f':
        args = [to_engine_makelist(yp, x, vm) for x in t[2]]
        if len(args) == 1:
            return yp.functor1(t[1], args[0])
        if len(args) == 2:
            return yp.functor2(t[1], args[0], args[1])
        return yp.functor(t[1], args)
    return impl.to_engine(yp, t, vm)


class FileDiffers(Exception):
    pass


class CallersListChanged(Exception):
    pass


def compile_from_file(src):
    import os
    import tempfile
    fd, path = tempfile.mkstemp(suffix='.prolog', prefix='verif-c16-')
    try:
        with os.fdopen(fd, 'w', encoding='utf8', newline='') as f:
            f.write(src)
        return impl.compiler.compile_prolog_from_file(path, impl.Ctx)
    finally:
        os.unlink(path)


def check_batch(batch):
    """batch: list of (idx, cls, term, text) -> list of (idx, status, sig, detail, outcome)"""
    clauses_text = []
    for j, (idx, cls, term, text) in enumerate(batch):
        lit = text if text is not None else show_term(term)
        clauses_text.append('l%d(%s).' % (j, lit))
        clauses_text.append('h%d(%s) :- true.' % (j, lit))
        clauses_text.append('b%d(Out) :- Out = %s.' % (j, lit))
        clauses_text.append('g%d(Out) :- ident(%s, Out).' % (j, lit))
        # ... and in a goal BEHIND a disjunction / an if-then-else (the continuation is compiled once per branch)
        clauses_text.append('d%d(Out) :- ( never_defined ; true ), Out = %s.' % (j, lit))
        clauses_text.append('e%d(Out) :- ( never_defined -> true ; true ), ident(%s, Out).' % (j, lit))
    clauses_text.append('ident(Q, Q).')
    src = '\n'.join(clauses_text) + '\n'
    results = []
    try:
        py = impl.compile_text(src)
        yp = impl.new_engine(py)
        # the same text read from a FILE denotes the same program (no translation of the
        # characters inside quoted atoms on the way in)
        pyf = compile_from_file(src)
        if pyf != py:
            raise FileDiffers()
    except Exception as e:  # noqa: BLE001
        if len(batch) > 1:
            # find the culprit(s) individually
            out = []
            for item in batch:
                out += check_batch([item])
            return out
        idx, cls, term, text = batch[0]
        if isinstance(e, FileDiffers):
            return [(idx, 'violation', 'file-and-string-compile-differently', 'literal %s: compile_prolog_from_file of a file holding %r returns other code than compile_prolog_from_string of the same text' % (pp(term), src[:120]), None)]
        return [(idx, 'violation', 'compile-or-load-raises:' + type(e).__name__, 'literal %s: source %r\nraised %r' % (pp(term), src[:200], e), None)]
    yp2 = impl.YP()
    # an engine that was cleared before the script was loaded (clear() rebuilds the atom table)
    ypc = impl.YP()
    ypc.atom('a')
    ypc.clear()
    ypc.load_script_from_string(py, fn=impl.SCRIPT_FN)
    for j, (idx, cls, term, text) in enumerate(batch):
        try:
            r = check_literal(yp, yp2, j, cls, term, text)
        except Exception as e:  # noqa: BLE001 - asking a predicate of the program about its literal does not raise
            r = ('violation', 'query-raises:' + impl.exc_sig(e), 'literal %s: a query on the compiled program raised %r' % (text if text is not None else show_term(term), e), None, 1)
        if r[0] == 'ok':
            # the same on the engine that was used and cleared before the program was loaded
            rc = check_literal(ypc, yp2, j, cls, term, text)
            if rc[0] != 'ok':
                r = (rc[0], 'after-clear:' + rc[1], 'on an engine that was cleared before the program was loaded: ' + rc[2]) + tuple(rc[3:])
        if r[0] == 'ok':
            r2 = check_cross(yp, yp2, ypc, j, term, text)
            if r2 is not None:
                r = r2 + (None, r[4])
        results.append((idx,) + r)
    return results


def check_cross(yp, yp2, ypc, j, term, text):
    """terms of two engines, and of an engine that was cleared, denote the same terms"""
    lit = text if text is not None else show_term(term)
    t1 = impl.to_engine(yp, term, {})
    t2 = to_engine_makelist(yp2, term, {})
    n = len(list(impl.engine.unify(t1, t2)))
    if n != 1:
        return ('violation', 'terms-of-two-engines-do-not-unify', 'the term %s built on two different engines unifies %d times instead of once' % (pp(term), n))
    n = len(list(yp.query('l%d' % j, [to_engine_makelist(yp2, term, {})])))
    if n != 1:
        return ('violation', 'literal-does-not-match-term-of-other-engine', 'the compiled literal %r matches the same term built on another engine %d times instead of once' % (lit, n))
    yp.assert_fact(yp.atom('dyn%d' % j), [impl.to_engine(yp2, term, {})])
    n = len(list(yp.query('dyn%d' % j, [impl.to_engine(yp, term, {})])))
    if n != 1:
        return ('violation', 'fact-of-other-engines-term-does-not-match', 'a dynamic fact holding %s built on another engine matches the engine\'s own term %d times' % (pp(term), n))
    for builder in (impl.to_engine, to_engine_makelist):
        n = len(list(ypc.query('l%d' % j, [builder(ypc, term, {})])))
        if n != 1:
            return ('violation', 'after-clear:api-term-does-not-match-literal', 'on an engine that was cleared before loading, the term %s built through the API (%s) matches the compiled literal %r %d times instead of once'
                    % (pp(term), builder.__name__, lit, n))
    return None


def scribble(v):
    """what a caller may do with a value it was handed: every list inside is changed in place"""
    if isinstance(v, list):
        for x in v:
            scribble(x)
        v.append('scribbled by the caller')
    elif isinstance(v, tuple):
        for x in v:
            scribble(x)


def check_literal(yp, yp2, j, cls, term, text):
    want = canon([term])
    lit = text if text is not None else show_term(term)
    try:
        want_py = ref_py(term, {})
        has_py = True
    except ValueError:
        has_py = False
    steps = 0
    for pred in ('l', 'h', 'b', 'g', 'd', 'e'):
        x = yp.variable()
        rows = []
        for _ in yp.query('%s%d' % (pred, j), [x]):
            try:
                pyv = impl.engine.to_python(x) if has_py else None
            except Exception as e:  # noqa: BLE001
                return ('violation', 'to_python-raises:' + pred, 'literal %s: to_python of the answer raised %r' % (lit, e), None, steps)
            rows.append((impl.observe([x]), pyv))
        steps += 1
        where = {'l': 'fact argument', 'h': 'head argument of a rule', 'b': 'right-hand side of = in a body', 'g': 'body-goal argument', 'd': 'right-hand side of = behind a disjunction', 'e': 'body-goal argument behind an if-then-else'}[pred]
        if len(rows) != 1:
            return ('violation', 'read-back-count:' + pred, 'literal %s as %s: %d answers instead of 1' % (lit, where, len(rows)), None, steps)
        if rows[0][0] != want:
            return ('violation', 'denotes-other-term:' + pred, 'literal %r as %s reads back as %r, expected %r' % (lit, where, rows[0][0], want), None, steps)
        if has_py and rows[0][1] != want_py:
            return ('violation', 'to_python-differs:' + pred, 'literal %r as %s: to_python gives %r, expected %r' % (lit, where, rows[0][1], want_py), None, steps)
        if has_py:
            # the value belongs to the caller: changing it in place must not show in any later conversion
            # (of this literal by the next predicate, of the following literals on the same engine)
            scribble(rows[0][1])
    # API-built term as query argument
    for builder in (impl.to_engine, to_engine_makelist):
        vm = {}
        api = builder(yp, term, vm)
        n = 0
        got = None
        for _ in yp.query('l%d' % j, [api]):
            n += 1
            got = impl.observe([api])
        steps += 1
        if n != 1:
            return ('violation', 'api-term-does-not-match-literal', 'the term %s built through the API (%s) matches the compiled literal %r %d times instead of once'
                    % (pp(term), builder.__name__, lit, n), None, steps)
        # vice versa: read the literal back and unify it with a fresh API term
        x = yp.variable()
        ok = 0
        for _ in yp.query('h%d' % j, [x]):
            vm2 = {}
            for _ in impl.engine.unify(impl.engine.get_value(x), builder(yp, term, vm2)):
                ok += 1
        steps += 1
        if ok != 1:
            return ('violation', 'literal-does-not-unify-with-api-term', 'the compiled literal %r read back does not unify exactly once with the API-built %s (%d)' % (lit, pp(term), ok), None, steps)
    if term[0] == 'a':
        nm = term[1]
        if yp.atom(nm) is not yp.atom(nm):
            return ('violation', 'atom-not-interned', 'yp.atom(%r) is not yp.atom(%r)' % (nm, nm), None, steps)
        if len(list(impl.engine.unify(yp.atom(nm), yp2.atom(nm)))) != 1:
            return ('violation', 'atoms-of-two-engines-do-not-unify', 'atom %r of two engines does not unify' % nm, None, steps)
        x = yp.variable()
        for _ in yp.query('l%d' % j, [x]):
            if impl.engine.get_value(x) is not yp.atom(nm):
                return ('violation', 'compiled-atom-is-another-object', 'the compiled atom %r is not the engine\'s interned atom object' % nm, None, steps)
        # ... by whatever route the atom reaches the caller: collected by findall, through once/1 and call/2,
        # stored as a dynamic fact and read back - atoms of the same name are one object per engine
        goal = yp.functor('l%d' % j, [x])
        bag = yp.variable()
        routes = [('findall/3', 'findall', [x, goal, bag], lambda: impl.engine.get_value(bag)._args[0] if isinstance(impl.engine.get_value(bag), impl.Functor) else None),
                  ('once/1', 'once', [goal], lambda: x), ('call/2', 'call', [yp.atom('l%d' % j), x], lambda: x)]
        for rname, qn, qargs, pick in routes:
            for _ in yp.query(qn, qargs):
                got = impl.engine.get_value(pick())
                steps += 1
                if got is not yp.atom(nm):
                    return ('violation', 'atom-through-builtin-is-another-object', 'the atom %r of the fact l(%s), reaching the caller through %s, is not the engine\'s atom object yp.atom(%r) (it is %r)' % (nm, lit, rname, nm, got), None, steps)
        yp.assert_fact(yp.atom('kept$'), [yp.atom(nm)])
        for _ in yp.query('kept$', [x]):
            if impl.engine.get_value(x) is not yp.atom(nm):
                return ('violation', 'atom-through-builtin-is-another-object', 'the atom %r stored as a dynamic fact and read back is not yp.atom(%r)' % (nm, nm), None, steps)
        for _ in yp.query('retractall', [yp.functor('kept$', [yp.variable()])]):
            pass
    nontrivial = lit.startswith("'") or term[0] == 'f' or bool(term_vars(term))
    return ('ok', None, None, (cls, want if len(repr(want)) < 120 else 'big'), steps, nontrivial)


def anon_cases():
    """every _ is a distinct variable"""
    return ['u(_, _).', 'u(_, f(_)).', 'u([_|_], _).', 'u(X, Y) :- w(_, _), X = 1, Y = 2.\nw(_, _).', 'u(A, B) :- A = f(_), B = f(_).',
            'u(A, B) :- v(A, _), v(B, _).\nv(1, 1).\nv(2, 2).']


def check_anon(src):
    py = impl.compile_text(src)
    yp = impl.new_engine(py)
    a, b = yp.variable(), yp.variable()
    rows = []
    for _ in yp.query('u', [a, b]):
        rows.append(impl.observe([a, b]))
    n = 0
    for _ in yp.query('u', [1, 2]):
        n += 1
    if src.startswith('u(A, B) :- A = f(_)'):
        okay = rows == [(('f', 'f', (('v', 0),)), ('f', 'f', (('v', 1),)))]
        n = 1
    elif 'v(1, 1)' in src:
        okay = len(rows) == 4
        n = 1
    elif src.startswith('u(_, f(_))'):
        okay = len(rows) == 1 and rows[0][0] == ('v', 0) and rows[0][1] == ('f', 'f', (('v', 1),))
        n2 = len(list(yp.query('u', [1, yp.functor('f', [2])])))
        n = 1 if n2 == 1 else 0
    elif src.startswith('u([_|_]'):
        n2 = len(list(yp.query('u', [yp.makelist([1, 2]), 3])))
        okay = len(rows) == 1
        n = 1 if n2 == 1 else 0
    else:
        okay = len(rows) == 1 and rows[0] == (('v', 0), ('v', 1)) or (rows and rows[0] == (('c', 1), ('c', 2)))
    if not okay or n != 1:
        return ('violation', 'anonymous-variables-shared', 'program %r: query u(A,B) gives %r; u(1,2) has %d answers' % (src, rows, n))
    return None


# ---- every _ is a variable of its own, wherever it stands ---------------------------------------------------
# every ordered pair (and the triples of the list patterns) of 7 patterns that contain _ - as an argument, inside
# a compound, as list element, as the TAIL of a list pattern - in ONE clause, in the head and in the body
def anon_patterns():
    a_, b_ = A('a'), A('b')
    return [lambda g: g(), lambda g: F('f', g()), lambda g: F('.', g(), g()), lambda g: F('.', a_, g()), lambda g: L([g(), b_], g()),
            lambda g: F('g', g(), g()), lambda g: L([g()])]


def anon_pair_cases():
    ps = anon_patterns()
    idx = 0
    for i in range(len(ps)):
        for j in range(len(ps)):
            for form in ('head', 'body'):
                yield idx, (i, j, -1, form)
                idx += 1
    for i in (2, 3, 4):
        for j in (2, 3, 4):
            for k in (2, 3, 4):
                yield idx, (i, j, k, 'head')
                idx += 1


def check_anon_pair(case):
    i, j, k, form = case
    ps = anon_patterns()
    cnt = [0]

    def g():
        cnt[0] += 1
        return V(('_', cnt[0]))
    terms = [ps[i](g), ps[j](g)] + ([ps[k](g)] if k >= 0 else [])
    names = ['A', 'B', 'C'][:len(terms)]
    if form == 'head':
        src = 'u(%s).\n' % ', '.join(show_term(t) for t in terms)
    else:
        src = 'u(%s) :- %s.\n' % (', '.join(names), ', '.join('%s = %s' % (n, show_term(t)) for n, t in zip(names, terms)))
    want = canon(terms)
    try:
        yp = impl.new_engine(impl.compile_text(src))
        vs = [yp.variable() for _ in terms]
        rows = [impl.observe(vs) for _ in yp.query('u', vs)]
    except Exception as e:  # noqa: BLE001
        return ('violation', 'anonymous:raises:' + type(e).__name__, 'program %r raised %r' % (src, e))
    if rows != [want]:
        return ('violation', 'anonymous-variables-shared', 'program %r: u(..) answers %r, expected %r (every _ a variable of its own)' % (src, rows, [want]))
    return None


# ---- layout: where a token stands in the source does not matter ------------------------------------
# the clause  p(X,Y) :- q(X,_), r(_,Y).  with its two anonymous variables at EVERY pair of positions
# (line a, column b) < (line c, column d) of a grid (the rest of the clause flows around them)
def layout_cases(tier):
    bmax, cmax = (16, 26) if tier == 'quick' else (26, 41)
    idx = 0
    for a in (2, 3):
        for b in range(bmax):
            for c in range(a + 1, cmax):
                for d in range(bmax):
                    yield idx, (a, b, c, d)
                    idx += 1


def layout_text(pos):
    a, b, c, d = pos
    return ('p(X,Y) :- q(X,' + '\n' * (a - 1) + ' ' * b + '_), r(' + '\n' * (c - a) + ' ' * d + '_,Y).\nq(1,a).\nr(b,2).\n')


def check_layout(pos):
    src = layout_text(pos)
    try:
        yp = impl.new_engine(impl.compile_text(src))
        x, y = yp.variable(), yp.variable()
        rows = [impl.observe([x, y]) for _ in yp.query('p', [x, y])]
    except Exception as e:  # noqa: BLE001
        return ('violation', 'layout:raises:' + type(e).__name__, 'program %r raised %r' % (src, e))
    if rows != [(('c', 1), ('c', 2))]:
        return ('violation', 'layout:answers-depend-on-token-positions', 'program %r (anonymous variables at line %d column %d and line %d column %d): p(X,Y) gives %r, expected X = 1, Y = 2 as in every other layout'
                % (src, pos[0], pos[1], pos[2], pos[3], rows))
    return None


# ---- comments are comments whatever they contain; what stands between two comments is compiled
COMMENT_PAYLOADS = ['/*', '*/', '/* x */', '<!--', '-->', '#', '//', '--', '"' * 3, "'", "'" * 3, '\\', ':- halt.', 'first(z).', '%', '{-', '-}', '(*', '*)', '=begin', '=end', '#|', '|#']


def comment_cases():
    idx = 0
    for t1 in COMMENT_PAYLOADS:
        for t2 in COMMENT_PAYLOADS:
            yield idx, (t1, t2)
            idx += 1


def _plain(t):
    return t.replace('\\', '').replace("'", '')


def check_comments(pair):
    t1, t2 = pair
    src = "%% %s\nfirst(a).\n%% sources: src/%s\nsecond('%s', b).\n%%%s\nthird(c, '%s').\n%% %s %s\nfourth(d).\n" % (t1, t1, _plain(t1), t2, _plain(t2), t2, t1)
    try:
        yp = impl.new_engine(impl.compile_text(src))
        got = []
        for name, n in (('first', 1), ('second', 2), ('third', 2), ('fourth', 1)):
            vs = [yp.variable() for _ in range(n)]
            got.append([impl.observe(vs) for _ in yp.query(name, vs)])
    except Exception as e:  # noqa: BLE001
        return ('violation', 'comments:raises:' + type(e).__name__, 'program %r raised %r' % (src, e))
    want = [[(('a', 'a'),)], [(('a', _plain(t1)), ('a', 'b'))], [(('a', 'c'), ('a', _plain(t2)))], [(('a', 'd'),)]]
    if got != want:
        return ('violation', 'comments:clauses-between-comments-lost-or-altered', 'program %r: first/1, second/2, third/2, fourth/1 answer %r, expected %r' % (src, got, want))
    return None


NSH = 32


def plan(tier):
    return [(tier, k, NSH) for k in range(NSH)]


def run_shard(spec):
    tier, k, n = spec
    acc = Acc()
    batch = []
    nb = 0

    def flush():
        nonlocal batch
        if not batch:
            return
        with watchdog(120):
            res = check_batch(batch)
        for r in res:
            idx, st, sig, detail, outcome = r[:5]
            acc.n['evaluations'] += 1
            acc.n['validated'] += 1
            if st == 'violation':
                cls, term, text = items[idx]
                acc.violation(sig, (idx,), {'cls': cls, 'term': _jt(term), 'text': text}, detail, key='%s|%s' % (pp(term), text))
                if len(r) > 5:
                    acc.n['transitions'] += r[5]
                continue
            acc.n['transitions'] += r[5]
            if r[6]:
                acc.n['nontrivial'] += 1
            acc.outcome(outcome)
        batch = []
    items = {}
    for idx, (cls, term, text) in enumerate(literals(tier)):
        if (idx // BATCH) % n != k:
            continue
        items[idx] = (cls, term, text)
        batch.append((idx, cls, term, text))
        if len(batch) >= BATCH:
            flush()
        if idx % 4999 == 0:
            acc.sample({'class': cls, 'literal_source': text or show_term(term), 'expected_structure': repr(canon([term]))[:200]}, limit=1)
    flush()
    for fam, cases, fn in (('layout', layout_cases(tier), check_layout), ('comments', comment_cases(), check_comments), ('anonpair', anon_pair_cases(), check_anon_pair)):
        for i, case in cases:
            if i % n != k:
                continue
            acc.n['evaluations'] += 1
            acc.n['validated'] += 1
            acc.n['transitions'] += 2
            bad = fn(case)
            if bad:
                acc.violation(bad[1], (2 * 10 ** 9 + i,), {fam: list(case)}, bad[2], key='%s|%s' % (fam, list(case)))
            else:
                acc.n['nontrivial'] += 1
                acc.outcome((fam, 'ok'))
    if k == 0:
        for i, src in enumerate(anon_cases()):
            acc.n['evaluations'] += 1
            acc.n['validated'] += 1
            acc.n['transitions'] += 2
            bad = check_anon(src)
            if bad:
                acc.violation(bad[1], (10 ** 9 + i,), {'anon': src}, bad[2], key=src)
            else:
                acc.n['nontrivial'] += 1
                acc.outcome(('anon', i))
    return acc


def _jt(t):
    from ..diff import _j
    return _j(t)


def replay(case):
    if 'layout' in case:
        bad = check_layout(tuple(case['layout']))
        return [(bad[1], bad[2])] if bad else []
    if 'anonpair' in case:
        bad = check_anon_pair(tuple(case['anonpair']))
        return [(bad[1], bad[2])] if bad else []
    if 'comments' in case:
        bad = check_comments(tuple(case['comments']))
        return [(bad[1], bad[2])] if bad else []
    from ..diff import _t
    if 'anon' in case:
        bad = check_anon(case['anon'])
        return [(bad[1], bad[2])] if bad else []
    res = check_batch([(0, case['cls'], _t(case['term']), case['text'])])
    return [(r[2], r[3]) for r in res if r[1] == 'violation']
