"""C17 - evaluate_bounded returns a prefix of the answers and restores the interpreter."""
import gc
import sys
import threading

from .. import impl
from ..diff import compile_cached, show_answers
from ..refprolog import Ref, Budget
from ..runner import Acc
from ..terms import A, C, F, V, L, NIL, call, conj, TRUE, show_program, show_term, pp, term_vars
from .c03 import snapshot, leftover

ID = 'C17'
LEVEL = 'fault_enumeration'
RULE = ('(after the bounded call the queries over dynamic facts - among them reach(n0, Q) over 12 edge/2 facts, which asks the facts with a different atom first argument at every depth - are enumerated again on the SAME engine without a bound: the answers are the reference answers) queries {answers found at different depths, the deep ones behind a comparison of constants whose equality is decided by Python code (a Fraction); a findall over 300 facts (the builtin holds the query while the answer is delivered); finite flat facts; a fact whose second argument is a 60-element list (the limit strikes inside the element-by-element match, after the first argument was bound) - compiled and as a dynamic fact, against ground lists and lists of variables; len/2 on lists of length 5, 20, 60; app/3 splitting a list; nat/1 and even/odd '
        '(infinitely many answers, each deeper); left recursion lp(X) :- lp(X). lp(a). (diverges before any answer); a '
        'rule with a deep failing branch between answers; registered Python predicates whose clean-up (finally) code needs 0, 3, 12 or 30 nested calls, queried directly and through call/1; predicates answered from two sources (dynamic facts followed by compiled clauses, dynamic facts followed by a Python predicate); a Python predicate that yields True; a dynamic fact with a variable 12 levels deep (after every call two uses of it at once must still be independent)} x EVERY recursion_limit from 8 to 400 (each value moves the '
        'point at which the limit strikes; quick: every value up to 89, then every 14th) x projection functions {identity, observe the variables, '
        'raise ValueError at the k-th answer for k=1..5, raise RuntimeError at the 2nd, raise StopIteration at the 2nd, change the interpreter limit itself at the 1st answer, raise KeyboardInterrupt at the 1st / SystemExit at the 2nd / an own BaseException subclass at the 2nd, run a bounded sub-query on the same engine for every answer (nested evaluate_bounded, inner limit 150 / 500)}, '
        'called from a shallow stack, in every 5th case while another query of the same engine is suspended at its first answer (it must be undisturbed afterwards); in three of every seven cases with the interpreter limit changed (to 1300, 1700 or 5000) AFTER the engine was created - restored means restored to the limit in force when the call was made; plus bounds ABOVE the interpreter\'s own limit (1200, 3000, 10000) for nat/1, ev/1, a compiled recursion over a dynamic base fact and len/2 of a 700-element list, with the identity projection and projections raising at answer 1, 200, 450, 900, 1400 (each call in a forked child: a dying interpreter is a violation); plus, for 8 queries at every limit 8..63, the same call in a quiet process and in one with every logger at DEBUG, a stream handler attached and warnings turned into errors, which must return the same. Checked: no RecursionError escapes; the result is a prefix of RefProlog\'s answer '
        'sequence (projected), and the whole sequence when the limit exceeds the measured stack depth of an unbounded '
        'run by a margin; afterwards sys.getrecursionlimit() is the old value and every live engine variable (weak set '
        'hook) is unbound - also when the projection raised and the caller still holds the query. evaluations = '
        'calls of evaluate_bounded; states = distinct (query, result length, outcome); non-trivial = the limit or a '
        'projection error cut the enumeration short')
ASSUMPTIONS = ['YLDPROLOG_VERIF=1 hook', 'one thread, evaluate_bounded called from a stack much shallower than the limit',
               'the reference answers come from RefProlog within its own depth budget (compared on the common prefix)']
EXHAUSTIVE = True
N, X, Y, T, H, R = V('N'), V('X'), V('Y'), V('T'), V('H'), V('R')
ANON = ('v', ('_', 1))
def DEEP(x, n=12):
    for _ in range(n):
        x = F('s', x)
    return x


PROGRAM = [
    (F('col', A('red')), None), (F('col', A('green')), None), (F('col', A('blue')), None),
    (F('len', NIL, A('z')), None), (F('len', L([ANON], T), F('s', N)), call(F('len', T, N))),
    (F('app', NIL, V('Lx'), V('Lx')), None), (F('app', L([H], T), V('Lx'), L([H], R)), call(F('app', T, V('Lx'), R))),
    (F('nat', A('z')), None), (F('nat', F('s', N)), call(F('nat', N))),
    (F('ev', A('z')), None), (F('ev', F('s', N)), call(F('od', N))), (F('od', F('s', N)), call(F('ev', N))),
    (F('lp', X), call(F('lp', X))), (F('lp', A('a')), None), (F('eqq', X, X), None),
    # a fact with a long ground list behind an ordinary argument: when the limit strikes while the
    # lists are being matched element by element, the first argument is already bound
    (F('big', A('first'), L([C(i) for i in range(60)])), None), (F('big', A('second'), L([C(i) for i in range(30)] + [A('x')])), None),
    # predicates whose answers come from two sources: dynamic facts first, then compiled clauses
    (F('mixd', A('c1')), None), (F('mixd', A('c2')), None),
    # a use of the fact vfact(s^12(_)) twice at once, with different bindings (run AFTER a bounded call,
    # as a probe that the engine is what it was)
    (A('vboth'), conj(call(F('vfact', V('Pa'))), call(F('vfact', V('Pb'))), call(F('=', V('Pa'), DEEP(A('a')))), call(F('=', V('Pb'), DEEP(A('b')))))),
    # answers found at DIFFERENT depths, the deep ones behind a comparison of Python-compared constants
    (F('pc', V('Kc'), A('first')), call(F('chk', V('Kc')))), (F('pc', ANON, A('second')), None), (F('pc', V('Kc'), A('third')), call(F('chk', V('Kc')))),
    (F('pc', ANON, A('fourth')), None), (F('chk', V('Kc')), call(F('chk1', V('Kc')))), (F('chk1', V('Kc')), call(F('wconst', V('Kc')))),
    # a findall whose bag has 300 elements (a builtin that itself holds the query while the answer is delivered)
    (F('all300', V('Lb')), call(F('findall', X, F('n300', X), V('Lb')))),
] + [(F('n300', C(i)), None) for i in range(300)] + [
    (F('deep', A('first')), None), (F('deep', X), conj(call(F('len', V('Lg'), F('s', F('s', F('s', A('z')))))), call(F('nat', X)))),
    # dynamic facts reached with a DIFFERENT atom as first argument at every depth (whatever an engine builds lazily per
    # key is built at another stack depth for every key)
    (F('reach', X, X), None), (F('reach', X, V('Yr')), conj(call(F('edge', X, V('Zr'))), call(F('reach', V('Zr'), V('Yr'))))),
]


PY_DEPTHS = [0, 3, 12, 30]


# a constant whose equality is decided by PYTHON code (the comparison itself needs stack)
from fractions import Fraction  # noqa: E402
HALF = C(Fraction(1, 2))
DYN_FACTS = [F('wconst', HALF),
             F('bigd', A('first'), L([C(i) for i in range(60)])), F('bigd', A('second'), L([C(i) for i in range(45)] + [A('x')])),
             F('mixd', A('d1')), F('mixd', A('d2')), F('pyg3', C(0)), F('vfact', DEEP(V('Fv')))] + \
    [F('edge', A('n%d' % i), A('n%d' % (i + 1))) for i in range(12)]
# queries that are enumerated AGAIN, unbounded, on the same engine after the bounded call: an aborted evaluation
# leaves the engine answering as before
PROBED = ('dynamic-by-key', 'mixed-sources', 'big-dynamic', 'flat')


def register_python(yp):
    for t in DYN_FACTS:
        yp.assert_fact(yp.atom(t[1]), [impl.to_engine(yp, x, {}) for x in t[2]])
    _register_python(yp)


def _register_python(yp):
    """Python predicates pygD/1 with three solutions whose clean-up code (a finally block that runs
    when the suspended generator is closed or finished) needs D nested calls of stack"""
    def make(depth):
        def helper(n):
            if n > 0:
                return helper(n - 1) + 1
            return 0

        def pred(arg1):
            try:
                for k in (1, 2, 3):
                    for _ in impl.engine.unify(arg1, k):
                        yield False
            finally:
                helper(depth)
        return pred
    for d in PY_DEPTHS:
        yp.register_function('pyg%d' % d, make(d))

    def pyt3(arg1):
        # a Python predicate that yields True for each of its three solutions
        for k in (1, 2, 3):
            for _ in impl.engine.unify(arg1, k):
                yield True
    yp.register_function('pyt3', pyt3)


PY_FACTS = [(F('pyg%d' % d, C(k)), None) for d in PY_DEPTHS for k in (1, 2, 3)] + [(F('pyt3', C(k)), None) for k in (1, 2, 3)]


def lst(n):
    return L([C(i) for i in range(n)])


def queries():
    return [('flat', F('col', V('Q'))), ('len5', F('len', lst(5), V('Q'))), ('len20', F('len', lst(20), V('Q'))),
            ('len60', F('len', lst(60), V('Q'))), ('app', F('app', V('Q'), V('Q2'), lst(6))), ('nat', F('nat', V('Q'))),
            ('evenodd', F('ev', V('Q'))), ('leftrec', F('lp', V('Q'))), ('deep', F('deep', V('Q'))), ('dynamic-by-key', F('reach', A('n0'), V('Q')))] + \
        [('big-dynamic', F('bigd', V('Q'), lst(60))), ('big-variables', F('big', V('Q'), L([V('E%d' % i) for i in range(60)]))),
         ('big-dynamic-variables', F('bigd', V('Q'), L([V('E%d' % i) for i in range(45)], V('Et')))),
         ('big', F('big', V('Q'), lst(60))), ('big-tail', F('big', V('Q'), L([C(i) for i in range(30)], V('Q2')))), ('same', F('eqq', lst(60), lst(60)))] + \
        [('python-compared-constant-deep', F('pc', HALF, V('Q'))), ('findall-300', F('all300', V('Q'))), ('mixed-sources', F('mixd', V('Q'))), ('python-yielding-true', F('pyt3', V('Q'))), ('variable-fact', F('vfact', V('Q')))] + [('pyg%d' % d, F('pyg%d' % d, V('Q'))) for d in PY_DEPTHS] + [('call-pyg12', F('call', F('pyg12', V('Q'))))]


def bounds(tier):
    return {'recursion_limits': 'every value 8..89, every 14th of 90..400, and 650, 800, 900' if tier == 'quick' else 'every value 8..400 and 650, 800, 900'}


def limits(tier):
    # ... and three bounds near the interpreter's own limit (a bag of 300 elements only fits under those)
    if tier == 'quick':
        return list(range(8, 90)) + list(range(90, 401, 14)) + [650, 800, 900]
    return list(range(8, 401)) + [650, 800, 900]


class ProjErr(ValueError):
    pass


class ProjStop(BaseException):
    pass


def projections(obsfn):
    """-> list of (name, factory) ; factory() -> (projection function, state)"""
    out = [('identity', lambda: (lambda x: x)), ('value', lambda: (lambda x: obsfn()))]
    for k in range(1, 6):
        def fac(k=k):
            cnt = [0]

            def proj(x):
                cnt[0] += 1
                if cnt[0] == k:
                    raise ProjErr('projection fails at answer %d' % k)
                return obsfn()
            return proj
        out.append(('valueerror@%d' % k, fac))

    def fac_rt():
        cnt = [0]

        def proj(x):
            cnt[0] += 1
            if cnt[0] == 2:
                raise RuntimeError('projection raises RuntimeError')
            return obsfn()
        return proj

    def fac_si():
        cnt = [0]

        def proj(x):
            cnt[0] += 1
            if cnt[0] == 2:
                raise StopIteration()
            return obsfn()
        return proj
    out.append(('runtimeerror@2', fac_rt))
    out.append(('stopiteration@2', fac_si))

    def fac_be(cls, k):
        def fac():
            cnt = [0]

            def proj(x):
                cnt[0] += 1
                if cnt[0] == k:
                    raise cls('projection stops the process at answer %d' % k)
                return obsfn()
            return proj
        return fac
    # exceptions that are NOT derived from Exception (an interrupt, an exit request, an application's own)
    # a projection (any code that runs during the bounded evaluation) that itself changes the interpreter limit and
    # leaves it changed: afterwards the limit is still what it was BEFORE the call
    def fac_sl():
        cnt = [0]

        def proj(x):
            cnt[0] += 1
            if cnt[0] == 1:
                sys.setrecursionlimit(sys.getrecursionlimit() + 7)
            return obsfn()
        return proj
    out.append(('changes-the-limit@1', fac_sl))
    out.append(('keyboardinterrupt@1', fac_be(KeyboardInterrupt, 1)))
    out.append(('systemexit@2', fac_be(SystemExit, 2)))
    out.append(('baseexception@2', fac_be(ProjStop, 2)))
    return out


def nested_projection(yp, obsfn, inner_limit):
    """a projection that runs a bounded sub-query on the SAME engine for every answer"""
    def proj(x):
        v = yp.variable()
        sub = yp.evaluate_bounded(yp.query('col', [v]), lambda y: 1, inner_limit)
        return obsfn()
    return proj


def measure_depth(yp, goal):
    """max interpreter stack depth of an unbounded enumeration (None if it does not finish
    within 300 answers / the default limit)"""
    vm = {}
    args = [impl.to_engine(yp, x, vm) for x in goal[2]]
    maxd = [0]
    base = len(_stack())

    def prof(frame, event, arg):
        if event == 'call':
            d = 0
            f = frame
            while f is not None:
                d += 1
                f = f.f_back
            if d > maxd[0]:
                maxd[0] = d
    q = yp.query(goal[1], args)
    n = 0
    sys.setprofile(prof)
    try:
        for _ in q:
            n += 1
            if n > 300:
                q.close()
                return None
    except RecursionError:
        return None
    finally:
        sys.setprofile(None)
    return maxd[0] - base


def _stack():
    out = []
    f = sys._getframe()
    while f is not None:
        out.append(f)
        f = f.f_back
    return out


AMBIENT = {3: 1700, 5: 5000, 6: 1300}     # idx % 7 -> the limit in force when the call is made


def one_call(pytext, qname, goal, limit, pname, exp, need_depth, bystander=False, ambient=None):
    """-> None | (sig, detail) ; plus info tuple
    ambient: the application changes the interpreter's recursion limit AFTER the engine was created and
    loaded; "the limit is restored" means restored to what it was when the call was made
    bystander: another query of the same engine (col(C), over its own variable) is suspended at its
    first answer while evaluate_bounded runs; it must be exactly where it was afterwards"""
    yp = impl.YP()
    yp.load_script_from_string(pytext, fn=impl.SCRIPT_FN)
    register_python(yp)
    by = None
    if bystander:
        bv = yp.variable()
        bq = yp.query('col', [bv])
        next(bq)
        by = (bv, bq)
    if ambient:
        sys.setrecursionlimit(ambient)
    r = _one_call(yp, qname, goal, limit, pname, exp, need_depth)
    if ambient:
        sys.setrecursionlimit(1000)
        if r[0] is not None:
            r = ((r[0][0], 'the recursion limit was changed to %d after the engine was created\n%s' % (ambient, r[0][1])), r[1])
    if r[0] is None and qname == 'variable-fact':
        # whatever the bounded call went through, the fact is what it was: two uses at once, bound differently
        n2 = len(list(yp.query('vboth', [])))
        if n2 != 1:
            return ('engine-changed-by-bounded-call', 'after the call, vboth :- vfact(A), vfact(B), A = s^12(a), B = s^12(b) has %d answers instead of 1 (the fact is vfact(s^12(_)))' % n2), None
    if r[0] is None and qname in PROBED and exp['complete']:
        vm = {}
        args = [impl.to_engine(yp, x, vm) for x in goal[2]]
        obs = [impl.to_engine(yp, ('v', k), vm) for k in term_vars(goal)]
        again = [impl.observe(obs) for _ in yp.query(goal[1], args)]
        if again != exp['answers']:
            if by is not None:
                by[1].close()
            return ('engine-changed-by-bounded-call', 'after evaluate_bounded(recursion_limit=%d) returned, the same query enumerated again on the same engine without a bound gives %s instead of %s'
                    % (limit, show_answers(again), show_answers(exp['answers']))), None
    if by is not None and r[0] is None:
        bv, bq = by
        rest = [impl.observe([bv])]
        for _ in bq:
            rest.append(impl.observe([bv]))
        want = [(('a', 'red'),), (('a', 'green'),), (('a', 'blue'),)]
        if rest != want:
            return ('bystander-query-disturbed', 'a query col(C) of the same engine was suspended at its first answer while evaluate_bounded ran; afterwards it shows %r and continues with %r (expected %r)'
                    % (rest[0], rest[1:], want)), None
    elif by is not None:
        by[1].close()
    return r


def _one_call(yp, qname, goal, limit, pname, exp, need_depth):
    vm = {}
    args = [impl.to_engine(yp, x, vm) for x in goal[2]]
    obs = [impl.to_engine(yp, ('v', k), vm) for k in term_vars(goal)]

    def obsfn():
        return impl.observe(obs)
    if pname.startswith('nested@'):
        proj = nested_projection(yp, obsfn, int(pname.split('@')[1]))
    else:
        fac = dict(projections(obsfn))[pname]
        proj = fac()
    snap = snapshot()
    old = sys.getrecursionlimit()
    q = yp.query(goal[1], args)
    raised = None
    result = None
    try:
        result = yp.evaluate_bounded(q, proj, recursion_limit=limit)
    except RecursionError as e:
        sys.setrecursionlimit(old)
        return ('recursion-error-escapes', 'RecursionError escaped from evaluate_bounded: %r' % (e,)), None
    except ProjErr as e:
        raised = e
    except (KeyboardInterrupt, SystemExit, ProjStop) as e:
        if not pname.split('@')[0] in ('keyboardinterrupt', 'systemexit', 'baseexception'):
            raise
        raised = e
    except BaseException as e:  # noqa: BLE001
        now = sys.getrecursionlimit()
        sys.setrecursionlimit(old)
        return ('unexpected-exception:' + impl.exc_sig(e), 'evaluate_bounded raised %r (limit afterwards %d)' % (e, now)), None
    now = sys.getrecursionlimit()
    if now != old:
        sys.setrecursionlimit(old)
        return ('recursion-limit-not-restored', 'sys.getrecursionlimit() is %d after the call, was %d before%s'
                % (now, old, ' (the projection raised %r)' % raised if raised else '')), None
    # the caller still holds q here
    lo = leftover(snap)
    if lo:
        return ('variables-left-bound' + (':projection-error' if raised else ''),
                'after evaluate_bounded returned%s, while the caller still holds the query object: %s'
                % (' by raising %r' % raised if raised else '', lo)), None
    cut = raised is not None
    if result is not None:
        if pname == 'identity':
            vals = None
            nres = len(result)
        else:
            vals = list(result)
            nres = len(vals)
        if vals is not None:
            common = min(len(vals), len(exp['answers']))
            if vals[:common] != exp['answers'][:common] or (len(vals) > len(exp['answers']) and exp['complete']):
                return ('not-a-prefix', 'result %s is not a prefix of the answer sequence %s'
                        % (show_answers(vals), show_answers(exp['answers']))), None
        else:
            if exp['complete'] and nres > len(exp['answers']):
                return ('not-a-prefix', '%d results, the query has only %d answers' % (nres, len(exp['answers']))), None
        full = exp['complete'] and nres == len(exp['answers'])
        # (only for the identity projection: a projection that walks a deep answer needs
        # stack of its own, and running out of it there legitimately ends the enumeration)
        if pname == 'identity' and exp['complete'] and need_depth is not None and limit >= need_depth + 60 and not full:
            return ('incomplete-although-within-limit',
                    'only %d of %d answers although recursion_limit=%d exceeds the measured stack depth %d of an unbounded run by 60'
                    % (nres, len(exp['answers']), limit, need_depth)), None
        cut = cut or not full
        return None, (nres, 'cut' if cut else 'full')
    return None, (-1, 'projection-error')


def reference():
    out = {}
    for qname, goal in queries():
        ref = Ref(60000, 140)
        ref.consult(PROGRAM + PY_FACTS)
        for t in DYN_FACTS:
            ref.assert_fact(t)
        obs = [('v', k) for k in term_vars(goal)]
        answers, st = ref.query(goal, obs, limit=400)
        out[qname] = {'answers': answers, 'complete': st == 'complete'}
    return out


def plan(tier):
    ls = limits(tier)
    n = 16
    return [(tier, k, n) for k in range(n)] + [('high', k, 16) for k in range(16)] + [('logged', k, 8) for k in range(8)]


def _shard(spec, acc):
    tier, k, n = spec
    sys.setrecursionlimit(1000)
    pytext = compile_cached(show_program(PROGRAM))
    exp = reference()
    yp0 = impl.YP()
    yp0.load_script_from_string(pytext, fn=impl.SCRIPT_FN)
    register_python(yp0)
    depth = {qn: (measure_depth(yp0, g) if exp[qn]['complete'] else None) for qn, g in queries()}
    acc.info['measured_stack_depth_of_unbounded_runs'] = {qn: d for qn, d in depth.items()}
    pnames = [p for p, _ in projections(lambda: None)] + ['nested@150', 'nested@500']
    idx = 0
    for limit in limits(tier):
        for qn, goal in queries():
            if limit > 400 and qn not in ('findall-300', 'nat', 'flat', 'pyg12', 'mixed-sources'):
                continue        # the three bounds near the interpreter's own limit: for five of the queries
            for pn in pnames:
                idx += 1
                if idx % n != k:
                    continue
                acc.n['evaluations'] += 1
                acc.n['validated'] += 1
                bad, info = one_call(pytext, qn, goal, limit, pn, exp[qn], depth[qn], bystander=(idx % 5 == 0), ambient=AMBIENT.get(idx % 7))
                if sys.getrecursionlimit() != 1000:
                    sys.setrecursionlimit(1000)
                if bad:
                    acc.violation(bad[0], (limit, qn, pn), {'query': qn, 'limit': limit, 'projection': pn, 'bystander': idx % 5 == 0, 'ambient': AMBIENT.get(idx % 7)},
                                  'query %s, recursion_limit=%d, projection %s\n%s' % (pp(goal), limit, pn, bad[1]),
                                  key='%s|%d|%s' % (qn, limit, pn))
                    continue
                acc.n['transitions'] += max(info[0], 0) + 1
                if info[1] != 'full':
                    acc.n['nontrivial'] += 1
                acc.outcome((qn, info))
                if info[1] == 'cut' and limit == 40 + 7 * 20 and pn == 'value':
                    acc.sample({'query': pp(goal), 'recursion_limit': limit, 'projection': pn, 'answers_returned': info[0]}, limit=2)


# ---- bounds ABOVE the interpreter's own limit ---------------------------------------------------
# evaluate_bounded(q, f, 10000) is a legitimate call: the search may then go deeper than the
# interpreter's default limit, answers are delivered while thousands of generators are suspended,
# and the projection may raise there.  Every case runs in a forked child: if the interpreter
# itself dies (fatal stack overflow) the child is gone, which is reported as a violation.
HIGH_BOUNDS = [1200, 3000, 10000]
HIGH_RAISE_AT = [None, 1, 200, 450, 900, 1400, 2000]


def high_cases():
    for bound in HIGH_BOUNDS:
        for qn in ('nat', 'evenodd', 'len700', 'mixed-deep', 'nat-then-python'):
            for k in HIGH_RAISE_AT:
                if qn == 'len700' and k not in (None, 1):
                    continue
                yield bound, qn, k


def high_goal(qn):
    if qn == 'nat':
        return F('nat', V('Q'))
    if qn == 'evenodd':
        return F('ev', V('Q'))
    if qn == 'len700':
        return F('len', lst(700), V('Q'))
    if qn == 'nat-then-python':
        # a Python predicate (clean-up code needing 12 nested calls) suspended below a deep recursion
        return F('np', V('Q'))
    return F('natd', V('Q'))


def high_case(bound, qn, k):
    """-> None | (sig, detail), info"""
    sys.setrecursionlimit(1000)
    pytext = compile_cached(show_program(PROGRAM + [(F('natd', F('s', N)), call(F('natd', N))),
                                                   (F('np', V('Q')), conj(call(F('nat', V('Nn'))), call(F('pyg12', V('Q')))))]))
    yp = impl.YP()
    yp.load_script_from_string(pytext, fn=impl.SCRIPT_FN)
    _register_python(yp)
    yp.assert_fact(yp.atom('natd'), [yp.atom('z')])     # natd/1: a dynamic fact as base case of a compiled recursion
    goal = high_goal(qn)
    vm = {}
    args = [impl.to_engine(yp, x, vm) for x in goal[2]]
    cnt = [0]

    def proj(x):
        cnt[0] += 1
        if k is not None and cnt[0] == k:
            raise ProjErr('projection fails at answer %d' % k)
        return cnt[0]
    snap = snapshot()
    q = yp.query(goal[1], args)
    raised = None
    result = None
    try:
        result = yp.evaluate_bounded(q, proj, recursion_limit=bound)
    except RecursionError as e:
        return ('recursion-error-escapes', 'RecursionError escaped from evaluate_bounded: %r' % (e,)), None
    except ProjErr as e:
        raised = e
    except BaseException as e:  # noqa: BLE001
        return ('unexpected-exception:' + impl.exc_sig(e), 'evaluate_bounded raised %r' % (e,)), None
    now = sys.getrecursionlimit()
    if now != 1000:
        return ('recursion-limit-not-restored', 'sys.getrecursionlimit() is %d after the call, was 1000 before' % now), None
    lo = leftover(snap)
    if lo:
        return ('variables-left-bound' + (':projection-error' if raised else ''),
                'after evaluate_bounded returned%s, while the caller still holds the query object: %s' % (' by raising %r' % raised if raised else '', lo)), None
    if raised is None and k is not None and result is not None and len(result) >= k:
        return ('projection-error-swallowed', 'the projection raised at answer %d but %d results were returned' % (k, len(result))), None
    if qn == 'len700':
        if result is not None and len(result) > 1:
            return ('not-a-prefix', '%d results, the query has one answer' % len(result)), None
        # the search is finite and about 2100 frames deep: within a bound of 3000 it must be complete
        if k is None and bound >= 3000 and result != [1]:
            return ('incomplete-although-within-limit', 'result %r although recursion_limit=%d is far above the depth of the search (about 2100 frames)' % (result, bound)), None
    elif raised is None and k is None:
        # each answer of these searches is 2-4 frames deeper than the one before: a bound of B
        # gives at least B/6 answers if the bound is really applied (and not the interpreter's lower limit)
        if result is None or len(result) < bound // 6:
            return ('incomplete-although-within-limit', 'only %d answers with recursion_limit=%d: the search was cut at a lower depth than the bound' % (len(result or []), bound)), None
    return None, (len(result) if result is not None else -1, 'raised' if raised else 'returned')


def run_high(spec, acc):
    from ..runner import in_child
    _, k, n = spec
    for idx, (bound, qn, kk) in enumerate(high_cases()):
        if idx % n != k:
            continue
        acc.n['evaluations'] += 1
        acc.n['validated'] += 1
        label = 'query %s, recursion_limit=%d (the interpreter\'s own limit is 1000), projection %s\n' % (
            show_term(high_goal(qn)) if qn != 'len700' else 'len(<list of 700>, Q)', bound, 'identity' if kk is None else 'raising at answer %d' % kk)
        try:
            bad, info = in_child(_high_in_thread, bound, qn, kk, quiet=True)
        except RuntimeError as e:
            bad, info = ('interpreter-died', 'the process running the call died without a result (fatal error in the interpreter): %s' % str(e)[:300]), None
        if bad:
            acc.violation('high-bound:' + bad[0], (bound, qn, kk), {'high': [bound, qn, kk]}, label + bad[1], key='high|%d|%s|%s' % (bound, qn, kk))
            continue
        acc.n['transitions'] += max(info[0], 0) + 1
        acc.n['nontrivial'] += 1
        acc.outcome(('high', qn, bound, kk, info))


def _high_in_thread(bound, qn, kk):
    out = []

    def target():
        try:
            out.append(high_case(bound, qn, kk))
        except BaseException as e:  # noqa: BLE001
            import traceback
            out.append((('harness-error', traceback.format_exc()[-800:]), None))
    threading.stack_size(512 * 1024 * 1024)
    th = threading.Thread(target=target)
    th.start()
    th.join()
    return out[0]


# ---- logging environment x tight limits ---------------------------------------------------------
# With every logger at DEBUG and a stream handler attached (what a service or a test runner
# configures), evaluate_bounded must return what it returns with logging silent, for the same
# query, limit and projection - in particular at limits only a few frames above what the search
# needs, where anything the library itself does inside the bounded region competes for the stack.
LOGGED_QUERIES = ['flat', 'len5', 'len20', 'app', 'mixed-sources', 'pyg0', 'nat', 'leftrec']
LOGGED_LIMITS = list(range(8, 64))


def run_logged(spec, acc):
    import logging
    import os
    import warnings
    _, k, n = spec
    sys.setrecursionlimit(1000)
    pytext = compile_cached(show_program(PROGRAM))
    exp = reference()
    goals = dict(queries())
    stream = open(os.devnull, 'w')
    handler = logging.StreamHandler(stream)
    root = logging.getLogger()
    lg = logging.getLogger('yldprolog')
    idx = 0
    try:
        for limit in LOGGED_LIMITS:
            for qn in LOGGED_QUERIES:
                for pn in ('identity', 'value'):
                    idx += 1
                    if idx % n != k:
                        continue
                    acc.n['evaluations'] += 1
                    acc.n['validated'] += 1
                    bad0, info0 = one_call(pytext, qn, goals[qn], limit, pn, exp[qn], None)
                    saved = (root.level, lg.level, lg.propagate)
                    root.addHandler(handler)
                    root.setLevel(logging.DEBUG)
                    lg.setLevel(logging.DEBUG)
                    lg.propagate = True
                    try:
                        # ... and with warnings turned into errors (python -W error, pytest filterwarnings=error)
                        with warnings.catch_warnings():
                            warnings.simplefilter('error')
                            bad1, info1 = one_call(pytext, qn, goals[qn], limit, pn, exp[qn], None)
                    finally:
                        root.removeHandler(handler)
                        root.setLevel(saved[0])
                        lg.setLevel(saved[1])
                        lg.propagate = saved[2]
                    if sys.getrecursionlimit() != 1000:
                        sys.setrecursionlimit(1000)
                    label = 'query %s, recursion_limit=%d, projection %s, ' % (show_term(goals[qn]), limit, pn)
                    if bad1 and not bad0:
                        acc.violation('logging:' + bad1[0], ('L', limit, qn, pn), {'logged': [qn, limit, pn]}, label + 'with DEBUG logging to a stream handler and warnings turned into errors: ' + bad1[1], key='logged|%s|%d|%s' % (qn, limit, pn))
                        continue
                    if not bad0 and info0 != info1:
                        acc.violation('logging:result-depends-on-logging-configuration', ('L', limit, qn, pn), {'logged': [qn, limit, pn]},
                                      label + 'returns %r (answers, status) with logging silent but %r with every logger at DEBUG, a stream handler attached and warnings turned into errors' % (info0, info1),
                                      key='logged|%s|%d|%s' % (qn, limit, pn))
                        continue
                    acc.n['transitions'] += 2
                    acc.n['nontrivial'] += 1
                    acc.outcome(('logged', qn, info1))
    finally:
        stream.close()


def run_shard(spec):
    """evaluate_bounded is called from a fresh thread, so that the caller's own stack is
    far shallower than every explored limit (a precondition stated by the property)"""
    acc = Acc()
    err = []
    if spec[0] == 'high':
        run_high(spec, acc)
        return acc
    if spec[0] == 'logged':
        spec_, target_fn = spec, run_logged
    else:
        spec_, target_fn = spec, _shard

    def target():
        try:
            target_fn(spec_, acc)
        except BaseException as e:  # noqa: BLE001
            import traceback
            err.append(traceback.format_exc())
    threading.stack_size(256 * 1024 * 1024)
    th = threading.Thread(target=target)
    th.start()
    th.join()
    if err:
        raise RuntimeError(err[0])
    return acc


def replay(case):
    if 'logged' in case:
        acc = Acc()
        qn, limit, pn = case['logged']
        global LOGGED_QUERIES, LOGGED_LIMITS
        sq, sl = LOGGED_QUERIES, LOGGED_LIMITS
        LOGGED_QUERIES, LOGGED_LIMITS = [qn], [limit]
        try:
            res = []

            def tgt():
                run_logged(('logged', 0, 1), acc)
            threading.stack_size(256 * 1024 * 1024)
            th = threading.Thread(target=tgt)
            th.start()
            th.join()
        finally:
            LOGGED_QUERIES, LOGGED_LIMITS = sq, sl
        return [(sig, g['detail']) for sig, g in acc.groups.items()]
    if 'high' in case:
        from ..runner import in_child
        try:
            bad, info = in_child(_high_in_thread, *case['high'], quiet=True)
        except RuntimeError as e:
            bad = ('interpreter-died', str(e)[:300])
        return [('high-bound:' + bad[0], bad[1])] if bad else []
    out = []

    def target():
        sys.setrecursionlimit(1000)
        pytext = impl.compile_text(show_program(PROGRAM))
        exp = reference()
        goal = dict(queries())[case['query']]
        yp0 = impl.YP()
        yp0.load_script_from_string(pytext, fn=impl.SCRIPT_FN)
        register_python(yp0)
        d = measure_depth(yp0, goal) if exp[case['query']]['complete'] else None
        bad, info = one_call(pytext, case['query'], goal, case['limit'], case['projection'], exp[case['query']], d, bystander=case.get('bystander', False), ambient=case.get('ambient'))
        sys.setrecursionlimit(1000)
        if bad:
            out.append(bad)
    threading.stack_size(256 * 1024 * 1024)
    th = threading.Thread(target=target)
    th.start()
    th.join()
    return out
