"""C14 - changing a predicate while it is being enumerated (logical update view)."""
import itertools

from .. import impl
from ..diff import Case, account, _j, _t, compile_cached
from ..refprolog import Cyclic, Unspecified, Budget
from ..runner import Acc, watchdog, Hang
from ..budget import StepBudget, Exceeded
from ..terms import A, C, F, V, call, conj, TRUE, FAIL, show_clause, show_program, show_term
from ..worlds import ImplWorld, RefWorld, facts_impl, facts_ref

ID = 'C14'
LEVEL = 'model_checking'
RULE = ('(eighth alphabet: the facts enumerated through clauses wrap(X) :- p(X) and wrap2(X) :- true, wrap(X), i.e. by the LAST goal of a clause that stays suspended) (seventh alphabet: the facts enumerated through yp.match_dynamic, the API function loaded scripts and hand-written predicates use, instead of a query) ' '(a) every history of depth <= D over the event menu {start (and take the first answer of) an enumeration of '
        'p(X) / retract(p(X)) / retract(p(a)) in a free slot (<= 2 suspended at once); step slot 1|2; close slot 1|2; '
        'asserta(p(c)); assertz(p(c)); retract(p(b)) once; retractall(p(a))} from the initial stores [] [a] [a,b] '
        '[a,b,a] (and, over a 10-event alphabet with the partially bound patterns retract(p(f(X))) / retractall(p(f(_))) and clear(), from the store [f(a),b,f(b),f(a)]; and over an 11-event alphabet with the ground call p(a) and asserta/assertz of p(a) from [a,b,a]; over a 7-event alphabet with retractall(p(_)) (the predicate is emptied and refilled during a suspension) to depth D+1 from [a,b,a]; and over the 11 base events to depth D-1 from the stores [a, _, b] and [a, [x|_], b] whose middle fact contains a variable; the 7-event alphabet includes a complete retract on another predicate), replayed on a fresh engine through the Python API with the reference model (logical update view: '
        'snapshot of fact identities when the goal starts; a retract skips facts that are gone) stepped alongside; after '
        'EVERY event the answer / exhaustion of the enumeration and the store read back must equal the model\'s. '
        '(b) every clause body of <= G goals over {p(X) p(Y) assertz(p(c)) asserta(p(c)) retract(p(X)) retract(p(Y)) '
        'retract(p(a)) once(retract(p(X))) \\+retract(p(X)) fail} compiled and run from each initial store under a deterministic step budget (termination), '
        'answers and final store compared with RefProlog; plus the classic drain and counter-update loops. '
        '[thorough: (c) explicit-state search over the model, one representative history per distinct model state, to '
        'depth 7 on the stores [] and [a] and to depth 6 on three more.] states = distinct canonical model states (store + suspended enumerations); transitions = events '
        'executed on the real engine; non-trivial = a modification happened while an enumeration was suspended')
ASSUMPTIONS = ['an enumeration "starts" when its first answer is requested (creating a generator object without '
               'advancing it is not an observable start)',
               'reference: RefProlog database with logical update view']
X = V('X')
a, b, c = A('a'), A('b'), A('c')
fa, fb = F('f', a), F('f', b)
INITIAL = [[], [a], [a, b], [a, b, a], [fa, b, fb, fa], [a, V('FactVar'), b],
           [a, F('.', A('x'), V('OpenTail')), b],      # a fact whose argument is the open list [x|_]
           [a, b, a] + [A('n%d' % i) for i in range(300)] + [b]]
STARTS = {'w': F('wrap', X), 'w2': F('wrap2', X), 'qa': F('p', a), 'q': F('p', X), 'rX': F('retract', F('p', X)), 'ra': F('retract', F('p', a)), 'rf': F('retract', F('p', F('f', X)))}
EVENTS = ['start:q', 'start:rX', 'start:ra', 'step:1', 'step:2', 'close:1', 'close:2',
          'asserta', 'assertz', 'retract_b', 'retractall_a']
# a second alphabet for the store with structured facts: partially bound retract patterns
STRUCT_EVENTS = ['start:q', 'start:rf', 'start:rX', 'step:1', 'step:2', 'close:1', 'assertz', 'retractall_f', 'retract_b', 'clear']


# a third alphabet: enumerations whose argument is BOUND (a call p(a) visits the facts p(a) only) while
# facts matching / not matching that argument are added and removed
BOUND_EVENTS = ['start:qa', 'start:q', 'start:ra', 'step:1', 'step:2', 'close:1', 'asserta_a', 'assertz_a', 'assertz', 'retract_b', 'retractall_a']


# a fourth alphabet, one step deeper: the predicate is EMPTIED and refilled while a retract is suspended
EMPTY_EVENTS = ['start:rX', 'step:1', 'assertz', 'retractall_all', 'retract_c', 'retract_b', 'retract_other']


# a fifth alphabet: the goal of a suspended retract arrived in a VARIABLE whose binding ends (release) or is
# replaced by another goal (rebind) while the retract is suspended: the retract goes on with the goal it was given
GOALVAR_EVENTS = ['startv:rX', 'startv:ra', 'step:1', 'step:2', 'close:1', 'release:1', 'rebind:1', 'assertz', 'retract_b']


# an eighth alphabet: the facts enumerated through a CLAUSE of the program whose last (only) goal is the call p(X) -
# wrap(X) :- p(X).  wrap2(X) :- true, wrap(X). - the clause is suspended after its last goal like after any other
WRAP_EVENTS = ['start:w', 'start:w2', 'step:1', 'step:2', 'close:1', 'asserta', 'assertz', 'retract_b', 'retractall_a']
WRAP_PROGRAM = [(F('wrap', X), call(F('p', X))), (F('wrap2', X), conj(TRUE, call(F('wrap', X))))]


# a seventh alphabet: the facts enumerated through match_dynamic (the API function that loaded scripts and
# hand-written Python predicates use for it) instead of through a query
MATCH_EVENTS = ['startm:q', 'startm:qa', 'step:1', 'step:2', 'close:1', 'asserta', 'asserta_a', 'assertz', 'retract_b', 'retractall_a']


# a sixth alphabet on a LARGE store (a, b, a, 300 other facts, b): whatever an engine does differently for big
# tables or big numbers, the logical update view is the same; drain takes all remaining answers of a suspended goal
BIG_EVENTS = ['start:q', 'start:rX', 'start:ra', 'step:1', 'drain:1', 'asserta', 'assertz', 'retract_b', 'retractall_a']
BIG_STORE = 7


def bounds(tier):
    return {'history_depth': 5 if tier == 'quick' else '6 on the stores [a,b] and [a,b,a]; 5 on the other stores and alphabets', 'body_goals': 3 if tier == 'quick' else 4,
            'state_search_depth': 0 if tier == 'quick' else '7 on the stores [] and [a], 6 on three more'}


class Run:
    """executes a history on one world"""

    def __init__(self, w, init, wrap=False):
        self.w = w
        self.slots = {1: None, 2: None}
        if not wrap:
            pass
        elif isinstance(w, ImplWorld):
            w.load(compile_cached(show_program(WRAP_PROGRAM)))
        else:
            w.load(WRAP_PROGRAM)
        for t in init:
            w.assert_fact(F('p', t))
        self.nvar = 0
        self.overlap = False
        self.viavar = set()

    def enabled(self, ev):
        kind, _, arg = ev.partition(':')
        if kind in ('start', 'startv', 'startm'):
            return self.slots[1] is None or self.slots[2] is None
        if kind in ('step', 'close', 'drain'):
            return self.slots[int(arg)] is not None
        if kind in ('release', 'rebind'):
            return self.slots[int(arg)] is not None and int(arg) in self.viavar
        return True

    def do(self, ev):
        w = self.w
        kind, _, arg = ev.partition(':')
        if kind in ('start', 'startv', 'startm'):
            k = 1 if self.slots[1] is None else 2
            self.nvar += 1
            v = V('E%d' % self.nvar)
            goal = STARTS[arg]
            # rename X to a variable private to this enumeration
            goal = _subst(goal, v)
            h = w.start(goal) if kind == 'start' else w.start_match(goal) if kind == 'startm' else w.start_via_variable(goal)
            self.viavar.discard(k)
            if w.step(h):
                self.slots[k] = (h, v, arg)
                if kind == 'startv':
                    self.viavar.add(k)
                return ('started', k, w.observe([v], h))
            if kind == 'startv':
                w.close(h)
            return ('started-empty', k)
        if kind in ('release', 'rebind'):
            k = int(arg)
            h, v, _ = self.slots[k]
            w.release(h, rebind=(kind == 'rebind'))
            return ('goal-variable-' + kind, k, w.observe([v], h))
        if kind == 'step':
            k = int(arg)
            h, v, _ = self.slots[k]
            if w.step(h):
                return ('answer', k, w.observe([v], h))
            self.slots[k] = None
            return ('exhausted', k)
        if kind == 'close':
            k = int(arg)
            h, v, _ = self.slots[k]
            w.close(h)
            self.slots[k] = None
            return ('closed', k)
        if kind == 'drain':
            k = int(arg)
            h, v, _ = self.slots[k]
            rest = []
            while w.step(h):
                rest.append(w.observe([v], h))
                if len(rest) > 2000:
                    rest.append('runaway')
                    w.close(h)
                    break
            self.slots[k] = None
            return ('drained', k, tuple(rest))
        if any(self.slots.values()):
            self.overlap = True
        if ev == 'clear':
            w.clear()
            return ('cleared',)
        if ev == 'asserta_a':
            goal = F('asserta', F('p', a))
        elif ev == 'assertz_a':
            goal = F('assertz', F('p', a))
        elif ev == 'asserta':
            goal = F('asserta', F('p', c))
        elif ev == 'assertz':
            goal = F('assertz', F('p', c))
        elif ev == 'retract_other':
            # a complete retract on ANOTHER predicate (which has no facts at all)
            goal = F('retract', F('other', V('O1'), V('O2')))
        elif ev == 'retract_c':
            goal = F('retract', F('p', c))
        elif ev == 'retractall_all':
            goal = F('retractall', F('p', ('v', ('_', 1))))
        elif ev == 'retract_b':
            goal = F('retract', F('p', b))
        elif ev == 'retractall_f':
            goal = F('retractall', F('p', F('f', ('v', ('_', 1)))))
        else:
            goal = F('retractall', F('p', a))
        h = w.start(goal)
        ok = w.step(h)
        w.close(h)
        return (ev, ok)

    def model_state(self):
        """canonical state of the reference world (for state counting / dedup)"""
        w = self.w
        store = tuple((fid, t) for fid, t in w.ref.db.get(('p', 1), []))
        # rename fact ids canonically by order of first appearance
        return store


def _subst(goal, v):
    if goal == X:
        return v
    if goal[0] == 'f':
        return ('f', goal[1], tuple(_subst(x, v) for x in goal[2]))
    return goal


def run_history(init, hist):
    """-> ('ok', states, steps, overlap) | ('violation', sig, detail) | ('disabled',)"""
    wrap = any(ev in ('start:w', 'start:w2') for ev in hist)
    ri = Run(ImplWorld(), init, wrap)
    rr = Run(RefWorld(), init, wrap)
    states = []
    trace = []
    steps = 0
    for n, ev in enumerate(hist):
        if not rr.enabled(ev):
            return ('disabled',)
        trace.append(ev)
        exp = rr.do(ev)
        label = 'initial store: %s\nhistory: %s\n' % ([show_term(t) for t in init], ' ; '.join(trace))
        try:
            with watchdog(60):
                with StepBudget(400000):
                    got = ri.do(ev)
                    rb = facts_impl(ri.w, ('p', 1), cap=len(init) + 40)
        except Exceeded as e:
            return ('violation', 'nontermination:' + ev.split(':')[0], label + 'event %d does not terminate: %s; model: %r' % (n + 1, e, exp))
        except Hang as e:
            return ('violation', 'hang:' + ev.split(':')[0], label + str(e))
        except Exception as ex:  # noqa: BLE001
            return ('violation', 'raises:%s:%s' % (ev.split(':')[0], impl.exc_sig(ex)), label + 'event %d raised %r; model: %r' % (n + 1, ex, exp))
        steps += 2
        if got != exp:
            return ('violation', 'event-differs:' + ev, label + 'event %d: observed %r, the model gives %r' % (n + 1, got, exp))
        mb = facts_ref(rr.w, ('p', 1), cap=len(init) + 40)
        if rb != mb:
            return ('violation', 'store-differs-after:' + ev, label + 'after event %d the store reads %r, the model holds %r' % (n + 1, rb, mb))
        states.append((mb, tuple((k, s[2]) if s else None for k, s in sorted(rr.slots.items())), exp))
    return ('ok', states, steps, rr.overlap)


# ---------------------------------------------------------------- (b) in-clause forms
Y = V('Y')
GOALS = [call(F('p', X)), call(F('p', Y)), call(F('assertz', F('p', c))), call(F('asserta', F('p', c))),
         call(F('retract', F('p', X))), call(F('retract', F('p', Y))), call(F('retract', F('p', a))), FAIL,
         # a goal with a side effect under once/1: backtracking into it must not run it further
         call(F('once', F('retract', F('p', X)))),
         # ... and under \+ : negation asks its goal for ONE answer
         ('\\+', call(F('retract', F('p', X)))),
         # retractall with an open pattern has ONE answer that binds nothing: the goals after it see X free
         call(F('retractall', F('p', X))), call(F('=', X, c))]


def body_cases(gmax):
    idx = 0
    for n in range(1, gmax + 1):
        for gs in itertools.product(range(len(GOALS)), repeat=n):
            for ii in range(BIG_STORE):
                yield idx, gs, ii
                idx += 1


def body_case(gs, ii):
    clause = (F('t', X, Y), conj(*[GOALS[g] for g in gs]))
    facts = [(F('p', t), True) for t in INITIAL[ii]]
    return Case([([clause], True, False)], facts, [F('t', V('A'), V('B')), F('p', V('R'))], repeat=1,
                ref_steps=3000, ref_depth=30, budget=True), clause


def classic_cases():
    N = V('N')
    out = []
    drain = [(F('drain', X), conj(call(F('p', X)), call(F('retract', F('p', X))), FAIL)), (F('drain', A('done')), TRUE)]
    count = [(A('count'), conj(call(F('retract', F('cnt', N))), call(F('assertz', F('cnt', F('s', N)))), FAIL)), (A('count'), TRUE)]
    grow = [(F('grow', X), conj(call(F('assertz', F('p', C(1)))), call(F('p', X)), call(F('assertz', F('p', C(2))))))]
    shift = [(F('shift', X), conj(call(F('retract', F('p', X))), call(F('assertz', F('p', F('s', X)))), FAIL)), (F('shift', A('done')), TRUE)]
    dup = [(F('dup', X), conj(call(F('p', X)), call(F('assertz', F('p', X))), FAIL)), (F('dup', A('done')), TRUE)]
    for ii in range(BIG_STORE):
        facts = [(F('p', t), True) for t in INITIAL[ii]]
        out.append(('drain', Case([(drain, True, False)], facts, [F('drain', V('A')), F('p', V('R'))], repeat=2, budget=True)))
        out.append(('grow', Case([(grow, True, False)], facts, [F('grow', V('A')), F('p', V('R'))], repeat=1, budget=True)))
        out.append(('shift', Case([(shift, True, False)], facts, [F('shift', V('A')), F('p', V('R'))], repeat=2, budget=True)))
        out.append(('dup', Case([(dup, True, False)], facts, [F('dup', V('A')), F('p', V('R'))], repeat=2, budget=True)))
    for start in ([A('z')], [A('z'), F('s', A('z'))], []):
        facts = [(F('cnt', t), True) for t in start]
        out.append(('count', Case([(count, True, False)], facts, [A('count'), F('cnt', V('R'))], repeat=3, budget=True)))
    return out


NSH = 64


def plan(tier):
    d = 5 if tier == 'quick' else 6
    g = 3 if tier == 'quick' else 4
    sh = [('h', d, k, NSH if tier == 'quick' else 4 * NSH) for k in range(NSH if tier == 'quick' else 4 * NSH)]
    sh += [('b', g, k, 32) for k in range(32)]
    sh += [('c',)]
    if tier != 'quick':
        sh += [('s', 7, ii) for ii in range(2)] + [('s', 6, ii) for ii in range(2, 5)]
    return sh


def histories(depth):
    """all event sequences of exactly `depth` events (shorter ones are their prefixes and are
    checked step by step); sequences with a disabled event are cut at that point"""
    return itertools.product(EVENTS, repeat=depth)


def run_shard(spec):
    acc = Acc()
    if spec[0] == 'h':
        _, depth, k, n = spec
        # the deepest histories (thorough: 6 events) on the stores [a, b] and [a, b, a]; the other stores and
        # alphabets one event shallower than that in the thorough tier (the quick tier is unchanged)
        d2 = depth if depth <= 5 else depth - 1
        work = [(idx, hist, ii) for idx, hist in enumerate(histories(depth)) if idx % n == k for ii in (2, 3)]
        work += [(8 * 10 ** 7 + idx, hist, ii) for idx, hist in enumerate(histories(d2)) if idx % n == k for ii in (0, 1)]
        work += [(10 ** 7 + idx, hist, 4) for idx, hist in enumerate(itertools.product(STRUCT_EVENTS, repeat=d2)) if idx % n == k]
        work += [(2 * 10 ** 7 + idx, hist, 3) for idx, hist in enumerate(itertools.product(BOUND_EVENTS, repeat=d2)) if idx % n == k]
        work += [(4 * 10 ** 7 + idx, hist, 3) for idx, hist in enumerate(itertools.product(EMPTY_EVENTS, repeat=d2 + 1)) if idx % n == k]
        # a store in which one fact is p(_): using it binds (a renamed copy of) its variable
        work += [(3 * 10 ** 7 + idx, hist, 5) for idx, hist in enumerate(itertools.product(EVENTS, repeat=depth - 1)) if idx % n == k]
        work += [(5 * 10 ** 7 + idx, hist, 6) for idx, hist in enumerate(itertools.product(EVENTS, repeat=depth - 1)) if idx % n == k]
        work += [(6 * 10 ** 7 + idx, hist, 3) for idx, hist in enumerate(itertools.product(GOALVAR_EVENTS, repeat=depth - 1)) if idx % n == k]
        work += [(9 * 10 ** 7 + idx, hist, 3) for idx, hist in enumerate(itertools.product(MATCH_EVENTS, repeat=depth - 1)) if idx % n == k]
        work += [(11 * 10 ** 7 + idx, hist, 3) for idx, hist in enumerate(itertools.product(WRAP_EVENTS, repeat=depth - 1)) if idx % n == k]
        work += [(7 * 10 ** 7 + idx, hist, BIG_STORE) for idx, hist in enumerate(itertools.product(BIG_EVENTS, repeat=depth - 1)) if idx % n == k]
        for idx, hist, ii in work:
            init = INITIAL[ii]
            if True:
                r = run_history(init, hist)
                if r[0] == 'disabled':
                    acc.n['disabled_histories'] += 1
                    continue
                acc.n['evaluations'] += 1
                acc.n['validated'] += 1
                if r[0] == 'violation':
                    acc.violation(r[1], (depth, idx, ii), {'kind': 'history', 'init': ii, 'hist': list(hist)}, r[2],
                                  key='%d|%s' % (ii, list(hist)))
                    continue
                _, states, steps, overlap = r
                acc.n['transitions'] += steps
                if overlap:
                    acc.n['nontrivial'] += 1
                for s in states:
                    acc.outcome(s)
                if overlap and idx % 9973 == 0 and ii == 2:
                    acc.sample({'initial': [show_term(t) for t in init], 'history': list(hist),
                                'observations': [repr(s[2]) for s in states]}, limit=1)
    elif spec[0] == 'b':
        _, gmax, k, n = spec
        for idx, gs, ii in body_cases(gmax):
            if idx % n != k:
                continue
            case, clause = body_case(gs, ii)
            res = case.run()
            if res['status'] == 'violation':
                res['sig'] = 'body:' + res['sig']
            account(acc, ('b', idx), case, res, key='%s|%d' % (show_clause(clause), ii))
    elif spec[0] == 'c':
        for i, (name, case) in enumerate(classic_cases()):
            res = case.run()
            if res['status'] == 'violation':
                res['sig'] = name + ':' + res['sig']
            account(acc, ('c', i), case, res, key='%s|%d' % (name, i))
            if res['status'] == 'ok':
                acc.sample({'classic_loop': name, 'program': case.describe()['scripts'][0]['text']}, limit=1)
    else:
        _, depth, ii = spec
        state_search(acc, INITIAL[ii], ii, depth)
    return acc


def state_search(acc, init, ii, depth):
    """explicit-state BFS over the MODEL: one representative history per distinct model
    state; every extension is replayed on the real engine from scratch"""
    import collections
    seen = set()
    frontier = collections.deque([()])
    while frontier:
        hist = frontier.popleft()
        if len(hist) >= depth:
            continue
        for ev in EVENTS:
            h2 = hist + (ev,)
            r = run_history(init, h2)
            if r[0] == 'disabled':
                continue
            acc.n['evaluations'] += 1
            acc.n['validated'] += 1
            if r[0] == 'violation':
                acc.violation('state-search:' + r[1], (99, len(h2), ii), {'kind': 'history', 'init': ii, 'hist': list(h2)}, r[2],
                              key='%d|%s' % (ii, list(h2)))
                continue
            _, states, steps, overlap = r
            acc.n['transitions'] += steps
            key = model_key(init, h2)
            if key not in seen:
                seen.add(key)
                acc.outcome(('search', key))
                frontier.append(h2)
    acc.n['state_search_states'] += len(seen)


def model_key(init, hist):
    """canonical model state after hist: store (facts with identities renamed in store
    order) + for every slot its kind and the identities it has still to visit"""
    rr = Run(RefWorld(), init)
    for ev in hist:
        rr.do(ev)
    db = rr.w.ref.db.get(('p', 1), [])
    store = tuple(t for _, t in db)
    slots = []
    for k in (1, 2):
        s = rr.slots[k]
        if s is None:
            slots.append(None)
        else:
            h, v, kind = s
            # what the suspended enumeration will still produce if nothing else happens is a
            # function of its remaining snapshot; probe a copy of the generator state by
            # re-running the history is too expensive, so the key keeps the history suffix
            # since the slot was started (sound: a finer key only costs time)
            slots.append((kind, _since_start(hist, k)))
    return (store, tuple(slots))


def _since_start(hist, slot):
    free = {1: True, 2: True}
    start = None
    for i, ev in enumerate(hist):
        kind, _, arg = ev.partition(':')
        if kind == 'start':
            k = 1 if free[1] else 2
            free[k] = False
            if k == slot:
                start = i
        elif kind == 'close':
            free[int(arg)] = True
    return tuple(hist[start:]) if start is not None else None


def replay(case):
    if case.get('kind') == 'history':
        r = run_history(INITIAL[case['init']], tuple(case['hist']))
        if r[0] == 'violation':
            return [(r[1], r[2])]
        return []
    cs = Case.from_json(case)
    res = cs.run()
    if res['status'] == 'violation':
        return [(res['sig'], res['detail'])]
    return []
