"""C15 - answers are fully dereferenced and stay valid after backtracking."""
import itertools

from .. import impl
from ..refprolog import Ref, Cyclic, Unspecified, Budget, unify_nsto, resolve, canon
from ..runner import Acc, watchdog, Hang
from ..terms import A, C, F, V, L, NIL, call, conj, TRUE, show_clause, show_program, show_term, pp

ID = 'C15'
LEVEL = 'model_checking'
RULE = ('every ordered selection of <= K of the equations {X=f(Y), X=g(Y,Z), Y=h(Z), Y=Z, Z=a, Y=b, X=[Y|Z], Z=[], X=p(t(c),Y), '
        'Z=k(W), W=c} (every order in which a variable and the variables inside its value can get bound), established (1) as '
        'nested unify generators through the Python API (with the engine\'s term classes and with the caller\'s own subclasses of Variable and Functor) and (2) as the body of a compiled clause, also consumed through '
        'findall/3 and through assertz + later read-back. At the innermost point the get_value() / to_python() METHODS of the term objects the caller built must reflect all bindings, and get_value of X,Y,Z must be the fully '
        'dereferenced reference term (no bound variable anywhere inside), to_python must equal the reference value at '
        'every depth; the saved get_value results must be structurally unchanged after all generators are closed / '
        'the query has finished (the [v.get_value() for _ in q] idiom). (3) bind/undo histories: every sequence of <= D operations "unify one of 11 equations (variable-variable links, structures, list cells with variable tails)" / "undo the most recent unification" with get_value of ALL variables taken after every operation (a lookup is itself an operation: it must not change what later lookups see) compared with the stack of active substitutions; at the end of every history the lookups are also run under every recursion limit from the current stack depth upwards (RecursionError at every depth of the dereferencing) and must afterwards give the same values. (5) interleaved lifetimes: 1..3 unrelated unifications are active before the equations start and are closed after the j-th equation, for every j (bindings of different queries are not undone in reverse order). (4) every argument position: compounds of 1..9 arguments, each a variable or a structure around one, bound before / after the compound in 3 orders; long values: a list of N cells and N nested f(_) for N in {8,33,64,100,101,102,128,160}, bound one cell per equation in 3 orders through the API and outer-first by compiled recursive predicates (also through findall and assertz), the saved value walked without dereferencing at the answer and after backtracking. states = distinct (sequence outcome) '
        'observations; transitions = generator steps on the real engine; non-trivial = the value of X contains a '
        'variable that was bound after X')
ASSUMPTIONS = ['sequences needing a cyclic term are skipped', 'values nested deeper than 160 levels are not covered (get_value is recursive; the Python recursion limit is reached at about 250 levels)', 'to_python of a partial list is unspecified and not compared']
X, Y, Z, W = V('X'), V('Y'), V('Z'), V('W')
a, b, c = A('a'), A('b'), A('c')
EQS = [(X, F('f', Y)), (X, F('g', Y, Z)), (Y, F('h', Z)), (Y, Z), (Z, a), (Y, b), (X, L([Y], Z)), (Z, NIL),
       (Z, F('k', W)), (W, c),
       # a compound whose FIRST argument is itself a compound and whose later argument is a variable bound afterwards
       (X, F('p', F('t', c), Y))]
VARS = [X, Y, Z, W]


def bounds(tier):
    return {'max_equations': 4 if tier == 'quick' else 5, 'bind_undo_history_depth': 5 if tier == 'quick' else 6}


def ref_py(t, env):
    """reference value of to_python; raises ValueError for partial lists"""
    t = resolve(t, env)

    def go(t):
        if t[0] == 'v':
            return None
        if t[0] == 'a':
            return [] if t[1] == '[]' else t[1]
        if t[0] == 'c':
            return t[1]
        if t[1] == '.' and len(t[2]) == 2:
            tail = go(t[2][1])
            if not isinstance(tail, list) or (t[2][1][0] not in ('f', 'a')):
                raise ValueError('partial list')
            if t[2][1][0] == 'f' and t[2][1][1] != '.':
                raise ValueError('improper list')
            if t[2][1][0] == 'a' and t[2][1][1] != '[]':
                raise ValueError('improper list')
            return [go(t[2][0])] + tail
        return (t[1], [go(x) for x in t[2]])
    return go(t)


def raw(t, names):
    """structure of an engine value WITHOUT dereferencing: a bound variable inside shows up"""
    if isinstance(t, impl.Variable):
        if t.get_value() is t:
            n = names.setdefault(id(t), len(names))
            return ('v', n)
        return ('BOUND-VARIABLE', raw(t.get_value(), names))
    if isinstance(t, impl.Atom):
        return ('a', t.name())
    if isinstance(t, impl.Functor):
        return ('f', t._name, tuple(raw(x, names) for x in t._args))
    return ('c', t)


def raws(values):
    names = {}
    return tuple(raw(v, names) for v in values)


def sequences(kmax):
    idx = 0
    for k in range(1, kmax + 1):
        for seq in itertools.permutations(range(len(EQS)), k):
            yield idx, seq
            idx += 1


def ref_envs(seq):
    """-> list of envs after each successful equation, and whether all succeeded"""
    env = {}
    envs = []
    for i in seq:
        e = unify_nsto(EQS[i][0], EQS[i][1], env)
        if e is None:
            return envs, False
        env = e
        envs.append(env)
    return envs, True


def check_api_interleaved(seq, nb, pos):
    """an UNRELATED enumeration holding nb bindings is opened first and closed (oldest first) after
    the first `pos` equations of seq: lifetimes of bindings are not nested across queries"""
    envs, allok = ref_envs(seq)  # may raise Cyclic
    yp = impl.YP()
    vm = {}
    ev = [impl.to_engine(yp, v, vm) for v in VARS]
    others = []
    for j in range(nb):
        g = iter(impl.engine.unify(yp.variable(), yp.atom('unrelated%d' % j)))
        next(g)
        others.append(g)
    gens = []
    n_ok = 0
    label = 'Python API: %d unrelated unification(s) active first; then %s; the unrelated ones are closed after equation %d\n' % (
        nb, ' ; '.join('%s = %s' % (show_term(EQS[i][0]), show_term(EQS[i][1])) for i in seq), pos)
    for idx, i in enumerate(seq):
        g = iter(impl.engine.unify(impl.to_engine(yp, EQS[i][0], vm), impl.to_engine(yp, EQS[i][1], vm)))
        gens.append(g)
        try:
            next(g)
        except StopIteration:
            break
        n_ok += 1
        if idx + 1 == pos:
            for o in others:
                o.close()
            others = []
    if n_ok != len(envs):
        return ('violation', 'interleaved:unification-count', label + '%d equations succeeded, the reference says %d' % (n_ok, len(envs)))
    env = envs[-1] if envs else {}
    saved = [impl.engine.get_value(v) for v in ev]
    saved2 = [v.get_value() for v in ev]
    exp = canon(VARS, env)
    for nm, sv in (('get_value(v)', saved), ('v.get_value()', saved2)):
        r_in = raws(sv)
        if r_in != exp:
            return ('violation', 'interleaved:get_value-not-fully-dereferenced', label + '%s of (X,Y,Z,W) is %r, expected %r' % (nm, r_in, exp))
    for g in reversed(gens):
        g.close()
    for o in others:
        o.close()
    if raws(saved) != exp:
        return ('violation', 'interleaved:saved-value-changed-after-backtracking', label + 'saved values read %r after closing, were %r' % (raws(saved), exp))
    return ('ok', exp, len(gens) + nb, True)


def check_api_user_terms(seq):
    return check_api(seq, user_terms=True)


def check_api(seq, user_terms=False):
    envs, allok = ref_envs(seq)  # may raise Cyclic
    yp = impl.YP()
    if user_terms:
        yp = impl.UserTerms(yp)
    vm = {}
    ev = [impl.to_engine(yp, v, vm) for v in VARS]
    gens = []
    steps = 0
    label = 'Python API, nested unify generators: %s\n' % ' ; '.join('%s = %s' % (show_term(EQS[i][0]), show_term(EQS[i][1])) for i in seq)
    n_ok = 0
    built = []
    for i in seq:
        lhs, rhs = impl.to_engine(yp, EQS[i][0], vm), impl.to_engine(yp, EQS[i][1], vm)
        g = iter(impl.engine.unify(lhs, rhs))
        gens.append(g)
        steps += 1
        try:
            next(g)
        except StopIteration:
            break
        n_ok += 1
        built.append((EQS[i][1], rhs))
    if n_ok != len(envs):
        return ('violation', 'api:unification-count', label + '%d equations succeeded, the reference says %d' % (n_ok, len(envs)))
    env = envs[-1] if envs else {}
    # the term OBJECTS the caller built for the right-hand sides: their own get_value() / to_python()
    # methods reflect the bindings made since
    for t, obj in built:
        if not isinstance(obj, impl.Functor):
            continue
        r1 = raws([obj.get_value()])
        if r1 != canon([t], env):
            return ('violation', 'api:method-get_value-not-fully-dereferenced', label + 'the caller\'s term %s: its get_value() method gives %r, expected %r' % (show_term(t), r1, canon([t], env)))
        try:
            want = ref_py(t, env)
        except ValueError:
            continue
        try:
            gotp = obj.to_python()
        except Exception as e:  # noqa: BLE001
            return ('violation', 'api:method-to_python-raises:' + impl.exc_sig(e), label + 'the caller\'s term %s: its to_python() method raised %r, expected %r' % (show_term(t), e, want))
        if gotp != want:
            return ('violation', 'api:method-to_python-differs', label + 'the caller\'s term %s: its to_python() method gives %r, expected %r' % (show_term(t), gotp, want))
    saved = [impl.engine.get_value(v) for v in ev]
    r_in = raws(saved)
    exp = canon(VARS, env)
    if r_in != exp:
        return ('violation', 'api:get_value-not-fully-dereferenced',
                label + 'innermost point: get_value of (X,Y,Z,W) is %r, expected %r' % (r_in, exp))
    for v, t in zip(ev, VARS):
        try:
            want = ref_py(t, env)
        except ValueError:
            continue
        try:
            gotp = impl.engine.to_python(v)
        except Exception as e:  # noqa: BLE001
            return ('violation', 'api:to_python-raises:' + impl.exc_sig(e), label + 'to_python(%s) raised %r, expected %r' % (t[1], e, want))
        if gotp != want:
            return ('violation', 'api:to_python-differs', label + 'to_python(%s) = %r, expected %r' % (t[1], gotp, want))
    for g in reversed(gens):
        g.close()
        steps += 1
    r_out = raws(saved)
    if r_out != r_in:
        return ('violation', 'api:saved-value-changed-after-backtracking',
                label + 'values saved at the innermost point read %r after all generators were closed (were %r)' % (r_out, r_in))
    after = raws([impl.engine.get_value(v) for v in ev])
    if after != canon(VARS, {}):
        return ('violation', 'api:bindings-left', label + 'after closing: %r' % (after,))
    return ('ok', exp, steps, late_binding(seq, allok))


def late_binding(seq, allok):
    """non-trivial: some variable occurring in X's value is bound after X"""
    bound = set()
    for i in seq:
        l, r = EQS[i]
        if l[1] in ('Y', 'Z', 'W') and 'X' in bound:
            return True
        bound.add(l[1])
    return False


def check_compiled(seq):
    goals = [call(F('=', EQS[i][0], EQS[i][1])) for i in seq]
    t_clause = (F('t', X, Y, Z, W), conj(*goals))
    prog = [t_clause,
            (F('fa', V('L1')), call(F('findall', F('r', X, Y, Z, W), F('t', X, Y, Z, W), V('L1')))),
            (A('store'), conj(call(F('t', X, Y, Z, W)), call(F('assertz', F('s', X, Y, Z, W)))))]
    label = 'compiled:\n%s' % show_program(prog)
    ref = Ref(3000, 30)
    ref.consult(prog)
    qv = [V('Qa'), V('Qb'), V('Qc'), V('Qd')]
    exp_t, st = ref.query(F('t', *qv), qv)     # may raise Cyclic
    pytext = impl.compile_text(show_program(prog))
    yp = impl.new_engine(pytext)
    steps = 0
    # the documented idiom: collect get_value() during the enumeration, use it afterwards
    vs = [yp.variable() for _ in range(4)]
    collected = [[v.get_value() for v in vs] for _ in yp.query('t', vs)]
    steps += len(collected) + 1
    got = [raws(row) for row in collected]
    if got != list(exp_t):
        return ('violation', 'compiled:collected-answers-differ',
                label + 'values collected with [v.get_value() for _ in q], read after the query finished: %r\nexpected: %r' % (got, exp_t))
    pyv = []
    for row, e_row in zip(collected, exp_t):
        for val, e in zip(row, e_row):
            try:
                want = ref_py(e, {})
            except ValueError:
                continue
            gotp = impl.engine.to_python(val) if not isinstance(val, impl.Variable) else None
            if gotp != want:
                return ('violation', 'compiled:to_python-of-collected-differs', label + 'to_python of a collected value = %r, expected %r' % (gotp, want))
    # findall
    lv = yp.variable()
    bags = [lv.get_value() for _ in yp.query('fa', [lv])]
    steps += 2
    ql = V('Ql')
    exp_fa, _ = ref.query(F('fa', ql), [ql])
    gb = [anon(raws([bg])) for bg in bags]
    eb = [anon(e) for e in exp_fa]
    if gb != eb:
        return ('violation', 'compiled:findall-result-differs', label + 'findall bag read after the query: %r\nexpected: %r' % (gb, eb))
    # assert + later read-back
    list(yp.query('store', []))
    ref.query(A('store'), [])
    vs2 = [yp.variable() for _ in range(4)]
    back = [raws([v.get_value() for v in vs2]) for _ in yp.query('s', vs2)]
    steps += len(back) + 2
    exp_s, _ = ref.query(F('s', *qv), qv)
    if back != list(exp_s):
        return ('violation', 'compiled:asserted-term-differs', label + 'fact asserted from the answer reads back as %r\nexpected: %r' % (back, exp_s))
    return ('ok', (tuple(exp_t), tuple(eb), tuple(exp_s)), steps, late_binding(seq, True))


def anon(obs):
    def an(t):
        if t[0] == 'v':
            return ('v', '_')
        if t[0] == 'f':
            return ('f', t[1], tuple(an(x) for x in t[2]))
        return t
    return tuple(an(t) for t in obs)


# ---- long terms built incrementally ----------------------------------------------------------
# The values of real answers are long: a list of N cells (or N nested f(_)) whose cells are bound one
# equation at a time, in every one of three orders.  The spine is walked iteratively, WITHOUT
# dereferencing, so a bound variable left anywhere inside the saved value is seen.
LONG_N = [8, 33, 64, 100, 101, 102, 128, 160]
LONG_ORDERS = ['outer-first', 'inner-first', 'odd-then-even']
LONG_KINDS = ['list', 'nest']
COPY = [(F('copy', NIL, NIL), TRUE),
        (F('copy', L([V('H')], V('T')), L([V('H')], V('T2'))), call(F('copy', V('T'), V('T2')))),
        (F('wrap', a, A('e')), TRUE),
        (F('wrap', F('s', V('N')), F('f', V('R'))), call(F('wrap', V('N'), V('R')))),
        (F('copies', V('L0'), V('B')), call(F('findall', V('R'), F('copy', V('L0'), V('R')), V('B')))),
        (F('keep', V('L0')), conj(call(F('copy', V('L0'), V('R'))), call(F('assertz', F('kept', V('R'))))))]


def spine(v, kind):
    """-> ('ok', n) | ('bad', position, what) for a saved value that should be the list [0..n-1] / f^n(e)"""
    i = 0
    while True:
        if isinstance(v, impl.Variable):
            return ('bad', i, 'an unbound variable' if v.get_value() is v else 'a variable (currently bound)')
        if isinstance(v, impl.Atom):
            return ('ok', i) if v.name() == ('[]' if kind == 'list' else 'e') else ('bad', i, 'atom %s' % v.name())
        if not isinstance(v, impl.Functor):
            return ('bad', i, repr(v))
        if kind == 'list':
            if v._name != '.' or len(v._args) != 2:
                return ('bad', i, 'functor %s/%d' % (v._name, len(v._args)))
            h = v._args[0]
            if isinstance(h, impl.Variable) or h != i:
                return ('bad', i, 'element %r' % (h,))
            v = v._args[1]
        else:
            if v._name != 'f' or len(v._args) != 1:
                return ('bad', i, 'functor %s/%d' % (v._name, len(v._args)))
            v = v._args[0]
        i += 1


def check_long(kind, n, order, flavor):
    if kind == 'arity':
        return check_arity(n, order)
    label = '%s of %d cells, %s, %s: ' % (kind, n, order, flavor)
    yp = impl.new_engine(impl.compile_text(show_program(COPY)))
    if flavor == 'api':
        vs = [yp.variable() for _ in range(n + 1)]
        if order == 'outer-first':
            idxs = list(range(n))
        elif order == 'inner-first':
            idxs = list(range(n - 1, -1, -1))
        else:
            idxs = list(range(1, n, 2)) + list(range(0, n, 2))
        gens = []
        for i in idxs + [n]:
            if i == n:
                rhs = yp.atom('[]' if kind == 'list' else 'e')
            else:
                rhs = yp.listpair(i, vs[i + 1]) if kind == 'list' else yp.functor('f', [vs[i + 1]])
            g = iter(impl.engine.unify(vs[i], rhs))
            next(g)
            gens.append(g)
        saved = impl.engine.get_value(vs[0])
        saved2 = vs[0].get_value()
        py = impl.engine.to_python(vs[0]) if kind == 'list' else None
        r1 = spine(saved, kind)
        for g in reversed(gens):
            g.close()
        r2 = spine(saved, kind)
        r3 = spine(saved2, kind)
        steps = 2 * len(gens)
        if r1 != ('ok', n):
            return ('violation', 'long:get_value-not-fully-dereferenced', label + 'at the innermost point the value of get_value holds %s at position %d' % (r1[2], r1[1]))
        if py is not None and py != list(range(n)):
            return ('violation', 'long:to_python-differs', label + 'to_python gives a list of %d elements' % len(py))
        for r in (r2, r3):
            if r != ('ok', n):
                return ('violation', 'long:saved-value-changed-after-backtracking', label + 'after all generators were closed the saved value holds %s at position %d' % (r[2], r[1]))
        return ('ok', (kind, n), steps, order != 'inner-first')
    # compiled: recursive predicates build the answer outer-first
    if kind == 'list':
        arg = yp.atom('[]')
        for i in range(n - 1, -1, -1):
            arg = yp.listpair(i, arg)
        name = 'copy'
    else:
        arg = yp.atom('a')
        for i in range(n):
            arg = yp.functor('s', [arg])
        name = 'wrap'
    rv = yp.variable()
    collected = [rv.get_value() for _ in yp.query(name, [arg, rv])]
    steps = 2
    if len(collected) != 1:
        return ('violation', 'long:answer-count', label + '%d answers' % len(collected))
    r = spine(collected[0], kind)
    if r != ('ok', n):
        return ('violation', 'long:collected-answer-differs', label + 'the value collected with [v.get_value() for _ in q], read after the query, holds %s at position %d' % (r[2], r[1]))
    if kind == 'list':
        bv = yp.variable()
        bags = [bv.get_value() for _ in yp.query('copies', [arg, bv])]
        steps += 2
        ok = len(bags) == 1 and isinstance(bags[0], impl.Functor) and len(bags[0]._args) == 2
        r = spine(bags[0]._args[0], kind) if ok else ('bad', -1, 'no bag')
        if r != ('ok', n):
            return ('violation', 'long:findall-result-differs', label + 'the instance in the findall bag holds %s at position %d' % (r[2], r[1]))
        list(yp.query('keep', [arg]))
        kv = yp.variable()
        back = [kv.get_value() for _ in yp.query('kept', [kv])]
        steps += 3
        r = spine(back[0], kind) if len(back) == 1 else ('bad', -1, '%d facts' % len(back))
        if r != ('ok', n):
            return ('violation', 'long:asserted-term-differs', label + 'the fact asserted from the answer reads back with %s at position %d' % (r[2], r[1]))
    return ('ok', (kind, n), steps, True)


def check_arity(n, order):
    """a compound of n arguments, each a variable (or a structure around one) bound before / after the
    compound is: every argument position of the saved value is dereferenced"""
    yp = impl.YP()
    x = yp.variable()
    vs = [yp.variable() for _ in range(n)]
    term = yp.functor('k', [v if i % 2 == 0 else yp.functor('w', [v]) for i, v in enumerate(vs)])
    steps = [(x, term)] + [(v, yp.atom('c%d' % i)) for i, v in enumerate(vs)]
    if order == 'inner-first':
        steps = steps[1:] + steps[:1]
    elif order == 'last-argument-first':
        steps = [steps[-1]] + steps[:-1]
    gens = []
    for l, r in steps:
        g = iter(impl.engine.unify(l, r))
        next(g)
        gens.append(g)
    saved = [impl.engine.get_value(x), x.get_value()]
    for g in reversed(gens):
        g.close()
    label = 'k/%d with arguments bound %s: ' % (n, order)
    for sv in saved:
        if not isinstance(sv, impl.Functor) or len(sv._args) != n:
            return ('violation', 'arity:value-lost', label + 'saved value is %r' % (sv,))
        for i, a in enumerate(sv._args):
            inner = a if i % 2 == 0 else (a._args[0] if isinstance(a, impl.Functor) and len(a._args) == 1 else None)
            if isinstance(a, impl.Variable) or not isinstance(inner, impl.Atom) or inner.name() != 'c%d' % i:
                return ('violation', 'arity:argument-not-dereferenced', label + 'after backtracking, argument %d of the value saved at the answer is %r (expected c%d%s)'
                        % (i + 1, a, i, '' if i % 2 == 0 else ' inside w/1'))
    return ('ok', ('arity', n), 2 * len(gens), True)


def long_cases():
    for n in range(1, 10):
        for order in ('outer-first', 'inner-first', 'last-argument-first'):
            yield 'arity', n, order, 'api'

    for kind in LONG_KINDS:
        for n in LONG_N:
            for order in LONG_ORDERS:
                yield kind, n, order, 'api'
            yield kind, n, 'outer-first', 'compiled'


NSH = 32


def plan(tier):
    kmax = 4 if tier == 'quick' else 5
    hd = 5 if tier == 'quick' else 6
    return [(kmax, k, NSH) for k in range(NSH)] + [('hist', hd, k, 2 * NSH) for k in range(2 * NSH)] + [('long', k, 8) for k in range(8)] + [('interleaved', 3 if tier == 'quick' else 4, k, NSH) for k in range(NSH)]


def run_histories(spec, acc, kind, sigprefix):
    _, depth, k, n = spec
    from .. import bindhist as bh
    for idx, h in enumerate(bh.histories(depth)):
        if idx % n != k:
            continue
        acc.n['evaluations'] += 1
        r = bh.run_history(h, (kind,))
        if r[0] == 'skip':
            acc.skipped[r[1]] += 1
            continue
        acc.n['validated'] += 1
        if r[0] == 'violation':
            if r[1] == kind or r[1].startswith(kind + '-'):
                acc.violation(sigprefix + r[1], ('h', depth, idx), {'history': list(h)}, r[2], key=str(list(h)))
            continue
        acc.n['transitions'] += r[2]
        if 'pop' in h:
            acc.n['nontrivial'] += 1
        acc.outcome(('hist', r[1]))
        if idx % 30011 == 0:
            acc.sample({'bind_undo_history': bh.describe(h)}, limit=1)


def run_shard(spec):
    acc = Acc()
    if spec[0] == 'hist':
        run_histories(spec, acc, 'lookup', 'history:stale-or-wrong-')
        return acc
    if spec[0] == 'long':
        for idx, lc in enumerate(long_cases()):
            if idx % spec[2] != spec[1]:
                continue
            acc.n['evaluations'] += 1
            try:
                with watchdog(60):
                    r = check_long(*lc)
            except Exception as e:  # noqa: BLE001
                r = ('violation', 'long:raises:' + impl.exc_sig(e), '%s raised %r' % (lc, e))
            acc.n['validated'] += 1
            if r[0] == 'violation':
                acc.violation(r[1], (0, idx), {'long': list(lc)}, r[2], key='long|%s' % (list(lc),))
                continue
            acc.n['transitions'] += r[2]
            acc.n['nontrivial'] += 1 if r[3] else 0
            acc.outcome(('long', r[1]))
        return acc
    if spec[0] == 'interleaved':
        _, kmax, k, n = spec
        for idx, seq in sequences(kmax):
            if idx % n != k:
                continue
            for nb in (1, 2, 3):
                for pos in range(1, len(seq) + 1):
                    acc.n['evaluations'] += 1
                    try:
                        r = check_api_interleaved(seq, nb, pos)
                    except (Cyclic, Unspecified, Budget):
                        acc.skipped['cyclic'] += 1
                        continue
                    except Exception as e:  # noqa: BLE001
                        r = ('violation', 'interleaved:raises:' + impl.exc_sig(e), '%s %d %d raised %r' % (seq, nb, pos, e))
                    acc.n['validated'] += 1
                    if r[0] == 'violation':
                        acc.violation(r[1], ('I', len(seq), idx, nb, pos), {'interleaved': [list(seq), nb, pos]}, r[2], key='interleaved|%s|%d|%d' % (list(seq), nb, pos))
                        continue
                    acc.n['transitions'] += r[2]
                    acc.n['nontrivial'] += 1
                    acc.outcome(('interleaved', r[1]))
        return acc
    kmax, k, n = spec
    for idx, seq in sequences(kmax):
        if idx % n != k:
            continue
        for flavor, fn in (('api', check_api), ('api-user-term-classes', check_api_user_terms), ('compiled', check_compiled)):
            acc.n['evaluations'] += 1
            try:
                with watchdog(60):
                    r = fn(seq)
            except (Cyclic, Unspecified, Budget):
                acc.skipped['cyclic'] += 1
                continue
            except Hang as e:
                r = ('violation', flavor + ':hang', '%s %s' % (seq, e))
            except Exception as e:  # noqa: BLE001
                r = ('violation', '%s:raises:%s' % (flavor, impl.exc_sig(e)),
                     '%s: %s\nraised %r' % (flavor, ' ; '.join('%s = %s' % (show_term(EQS[i][0]), show_term(EQS[i][1])) for i in seq), e))
            acc.n['validated'] += 1
            if r[0] == 'violation':
                acc.violation(r[1], (len(seq), idx), {'seq': list(seq), 'flavor': flavor}, r[2], key='%s|%s' % (flavor, list(seq)))
                continue
            acc.n['transitions'] += r[2]
            if r[3]:
                acc.n['nontrivial'] += 1
            acc.outcome((flavor, r[1]))
            if r[3] and idx % 501 == 0:
                acc.sample({'flavor': flavor, 'equations_in_order': ['%s = %s' % (show_term(EQS[i][0]), show_term(EQS[i][1])) for i in seq],
                            'reference_observation': repr(r[1])[:300]}, limit=1)
    return acc


def replay(case):
    if 'interleaved' in case:
        try:
            r = check_api_interleaved(tuple(case['interleaved'][0]), case['interleaved'][1], case['interleaved'][2])
        except (Cyclic, Unspecified, Budget):
            return []
        return [(r[1], r[2])] if r[0] == 'violation' else []
    if 'long' in case:
        r = check_long(*case['long'])
        return [(r[1], r[2])] if r[0] == 'violation' else []
    if 'history' in case:
        from .. import bindhist as bh
        r = bh.run_history(tuple(case['history']))
        return [(r[1], r[2])] if r[0] == 'violation' else []
    fn = {'api': check_api, 'api-user-term-classes': check_api_user_terms}.get(case['flavor'], check_compiled)
    try:
        r = fn(tuple(case['seq']))
    except (Cyclic, Unspecified, Budget):
        return []
    if r[0] == 'violation':
        return [(r[1], r[2])]
    return []
