"""C20 - Python predicates are interchangeable with compiled ones."""
import itertools

from .. import bodies, impl
from ..diff import compile_cached, show_answers, _j, _t, anonymize
from ..refprolog import Ref, Cyclic, Unspecified
from ..runner import Acc, watchdog, Hang
from ..terms import A, C, F, V, TRUE, CUT, show_program, show_term, show_clause, term_vars
from . import c09

ID = 'C20'
LEVEL = 'model_checking'
RULE = ('(every other solution of a Python predicate is built with the Atom constructor instead of the engine atom table, and the goal r(X, b) joins such an atom with one from compiled code) programs = every body tree with <= N operators over the 8 leaves in the context of C05 (callee with a later '
        'clause, caller with alternatives, a dynamic fact) and the meta-call programs of C09 over o/1, m/1, r/2; for '
        'each program EVERY non-empty subset of the fact predicates it uses (z/0 o/1 m/1 k/1, r/2) is re-implemented as a '
        'registered Python generator function x registration style {inferred, explicit, explicit with a generic *args function, variadic arity given as -1 and as -3; inferred also for a bound method, for a method bound to the engine object itself, for a functools.wraps-decorated function and for a function that returns a cursor object (an iterator with close(), also kept in a registry) instead of a generator} x yielded '
        'value {False, True} [x a dynamic fact next to the Python predicate] [x on a fresh engine / on an engine that was queried before and had an earlier version of the predicates registered]; answers compared with RefProlog run on '
        'the all-Prolog program. For every program/subset additionally one run per event j (entry or resumption of a '
        'Python predicate) in which the predicate raises a fresh exception object - of each of 7 classes (a custom one, TypeError, ValueError, RuntimeError, KeyError, AttributeError, AssertionError), through an inferred-arity and through a variadic registration - at its j-th event: the consumer must '
        'receive that very object. states = distinct answer sequences; transitions = next() calls; non-trivial = at '
        'least one answer')
ASSUMPTIONS = ['RefProlog is the semantics of the all-compiled program (tied to the compiled engine by C05/C06/C09)',
               'the Python predicates unify their arguments with module-level unify() and yield once per solution']


def bounds(tier):
    return {'max_operators': 1 if tier == 'quick' else 2}


class Injected(Exception):
    pass


class BackendGone(impl.engine.YPException):
    """the application's own subclass of the ENGINE's exception class, with an attribute"""
    def __init__(self, msg):
        super().__init__(msg)
        self.retry_after = 30


# ... incl. the engine's own exception class and a subclass of it (what the engine raises itself it may want to
# handle or rewrite - not when it comes out of the user's function)
EXC_CLASSES = [Injected, TypeError, ValueError, RuntimeError, KeyError, AttributeError, AssertionError, impl.engine.YPException, BackendGone]


SOLS = {('z', 0): [], ('y0', 0): [()], ('o', 1): [(C(1),)], ('m', 1): [(C(1),), (C(2),)], ('k', 1): [(C(1),)],
        ('r', 2): [(C(1), A('a')), (C(2), A('b')), (C(2), A('c'))]}
PROLOG = {('z', 0): [], ('y0', 0): [(A('y0'), TRUE)], ('o', 1): [(F('o', C(1)), TRUE)], ('m', 1): [(F('m', C(1)), TRUE), (F('m', C(2)), TRUE)],
          ('k', 1): [(F('k', C(1)), CUT), (F('k', C(2)), TRUE)],
          ('r', 2): [(F('r', C(1), A('a')), TRUE), (F('r', C(2), A('b')), TRUE), (F('r', C(2), A('c')), TRUE)]}


OPEN_CURSORS = []


def make_py(yp, key, style, yv, events):
    """events: dict(count=int, fire=int|None, exc=None) shared by all python predicates of a run"""
    name, n = key
    sols = SOLS[key]

    def tick():
        events['count'] += 1
        if events['fire'] is not None and events['count'] == events['fire']:
            cls = events.get('cls') or Injected
            events['exc'] = cls('event %d in %s/%d' % (events['count'], name, n))
            raise events['exc']

    def unify_all(pairs):
        if not pairs:
            yield
            return
        for _ in impl.engine.unify(pairs[0][0], pairs[0][1]):
            yield from unify_all(pairs[1:])

    def body(args):
        tick()
        events['args'].append((name, len(args)))
        for si, s in enumerate(sols):
            vm = {}
            terms = [impl.to_engine(yp, t, vm) for t in s]
            if si % 2:
                # every other solution is built the way module-level application code builds terms: with the Atom
                # constructor, not through the engine's atom table (an atom is its name, whoever made the object)
                terms = [impl.engine.Atom(t.name()) if isinstance(t, impl.engine.Atom) else t for t in terms]
            for _ in unify_all(list(zip(args, terms))):
                yield yv
                tick()

    if style == 'variadic':
        def pred(*args):
            return body(args)
        return pred, -1
    if style == 'variadic-other-negative':
        # "if arity is a negative integer, the function has a variable arity": not only -1
        def pred(*args):
            return body(args)
        return pred, -3
    if style == 'explicit-generic':
        # one generic function for every arity, registered with the arity given explicitly
        def pred(*args):
            return body(args)
        return pred, n
    if n == 0:
        def pred():
            return body(())
    elif n == 1:
        def pred(arg1):
            return body((arg1,))
    else:
        def pred(arg1, arg2):
            return body((arg1, arg2))
    if style == 'inferred-cursor':
        # the function does not return a generator but a cursor OBJECT (an iterator with a close()
        # method) that the application also keeps in a registry of open cursors
        inner = pred

        class Cursor:
            def __init__(self, it):
                self.it = it
                self.closed = False

            def __iter__(self):
                return self

            def __next__(self):
                return next(self.it)

            def close(self):
                self.closed = True
                self.it.close()
        if n == 0:
            def cpred():
                c = Cursor(inner())
                OPEN_CURSORS.append(c)
                return c
        elif n == 1:
            def cpred(arg1):
                c = Cursor(inner(arg1))
                OPEN_CURSORS.append(c)
                return c
        else:
            def cpred(arg1, arg2):
                c = Cursor(inner(arg1, arg2))
                OPEN_CURSORS.append(c)
                return c
        return cpred, None
    if style == 'inferred-engine-method':
        # a method BOUND TO THE ENGINE OBJECT itself (a YP subclass registering self.pred, or
        # types.MethodType(f, yp)): still the user's predicate, not one of the engine's own
        import types
        if n == 0:
            def epred(self_):
                return body(())
        elif n == 1:
            def epred(self_, arg1):
                return body((arg1,))
        else:
            def epred(self_, arg1, arg2):
                return body((arg1, arg2))
        return types.MethodType(epred, yp), None
    if style == 'inferred-positional-only':
        # parameters declared positional-only (def f(a, b, /)): still parameters, still counted
        if n == 0:
            def ppred():
                return body(())
        elif n == 1:
            def ppred(arg1, /):
                return body((arg1,))
        else:
            def ppred(arg1, /, arg2):
                return body((arg1, arg2))
        return ppred, None
    if style == 'inferred-partial':
        # functools.partial with the first parameter already given: the remaining ones are the arity
        import functools

        def full(tag, *args):
            return body(args)
        if n == 0:
            def full(tag):
                return body(())
        elif n == 1:
            def full(tag, arg1):
                return body((arg1,))
        else:
            def full(tag, arg1, arg2):
                return body((arg1, arg2))
        return functools.partial(full, 'tag'), None
    if style == 'inferred-callable-object':
        # an object with __call__ (its signature does not count self)
        if n == 0:
            class Obj:
                def __call__(self):
                    return body(())
        elif n == 1:
            class Obj:
                def __call__(self, arg1):
                    return body((arg1,))
        else:
            class Obj:
                def __call__(self, arg1, arg2):
                    return body((arg1, arg2))
        return Obj(), None
    if style == 'inferred-method':
        # a bound method: the function object behind it has one more parameter (self)
        class Holder:
            def p0(self):
                return body(())

            def p1(self, arg1):
                return body((arg1,))

            def p2(self, arg1, arg2):
                return body((arg1, arg2))
        return getattr(Holder(), 'p%d' % n), None
    if style == 'inferred-decorated':
        # an ordinary decorator: the object that is registered is a generic wrapper that declares,
        # through functools.wraps, the signature of the function it wraps
        import functools
        inner = pred

        @functools.wraps(inner)
        def wrapper(*args, **kwargs):
            return inner(*args, **kwargs)
        return wrapper, None
    return pred, (n if style == 'explicit' else None)


def used_preds(clauses):
    used = set()

    def tv(t):
        if t[0] in ('a', 'f'):
            k = (t[1], len(t[2]) if t[0] == 'f' else 0)
            if k in SOLS:
                used.add(k)
            if t[0] == 'f':
                for x in t[2]:
                    tv(x)

    def bv(b):
        if b[0] == 'call':
            tv(b[1])
        elif b[0] in (',', ';', '->'):
            bv(b[1])
            bv(b[2])
        elif b[0] == '\\+':
            bv(b[1])
    for h, b in clauses:
        if b is not None:
            bv(b)
    return sorted(used)


def run_variant(pytext, clauses, goal, pykeys, style, yv, dyn, exp, fire=None, warm=False, cls=None):
    """one engine: support predicates not in pykeys come from compiled Prolog, the others are
    registered Python functions.  -> (answers, status, exc, events)"""
    yp = impl.YP()
    rest = []
    for key, cl in PROLOG.items():
        if key not in pykeys:
            rest += cl
    if rest:
        yp.load_script_from_string(compile_cached(show_program(rest)), fn=impl.SCRIPT_FN)
    yp.load_script_from_string(pytext, fn=impl.SCRIPT_FN)
    events = {'count': 0, 'fire': fire, 'exc': None, 'args': [], 'cls': cls}
    if warm:
        # the engine has already been asked (the predicates were still unknown), then an earlier
        # version of each Python predicate was registered and asked, and only then the final one
        # is registered: a later registration replaces what calls resolve to from then on
        _probe(yp, goal)
        for key in pykeys:
            def old_version(*args):
                return iter(())
            yp.register_function(key[0], old_version, -1 if style.startswith('variadic') else key[1])
        _probe(yp, goal)
    for key in pykeys:
        fn, ar = make_py(yp, key, style, yv, events)
        yp.register_function(key[0], fn, ar) if ar is not None else yp.register_function(key[0], fn)
    for t in dyn:
        yp.assert_fact(yp.atom(t[1]), [impl.to_engine(yp, x, {}) for x in (t[2] if t[0] == 'f' else ())])
    obs = [('v', k) for k in term_vars(goal)]
    cap = len(exp) + 1
    with watchdog():
        got, status, exc = impl.run_query(yp, goal, obs, cap=cap)
    return got, status, exc, events


def _probe(yp, goal):
    vm = {}
    q = yp.query(goal[1], [impl.to_engine(yp, x, vm) for x in (goal[2] if goal[0] == 'f' else ())])
    try:
        for i, _ in enumerate(q):
            if i > 20:
                break
    except Exception:  # noqa: BLE001 - the probe's own outcome is not judged here
        pass
    q.close()


def check_program(acc, index, clauses, goal, dyn_extra, label):
    """all subsets x styles x yield values (+ exception points) for one program"""
    text = show_program(clauses)
    try:
        pytext = impl.compile_text(text)
    except Exception as e:  # noqa: BLE001
        acc.n['evaluations'] += 1
        acc.n['validated'] += 1
        acc.violation('compile:' + impl.exc_sig(e), index, {'label': label, 'text': text}, text + repr(e))
        return
    used = used_preds(clauses)
    # reference: all-Prolog program
    ref = Ref(20000, 60)
    ref.consult([c for cl in PROLOG.values() for c in cl])
    ref.consult(clauses)
    for t in dyn_extra:
        ref.assert_fact(t)
    obs = [('v', k) for k in term_vars(goal)]
    try:
        exp, rstatus = ref.query(goal, obs)
    except (Cyclic, Unspecified):
        acc.n['evaluations'] += 1
        acc.skipped['unspecified'] += 1
        return
    if rstatus != 'complete':
        acc.n['evaluations'] += 1
        acc.skipped['reference budget'] += 1
        return
    # unbound variables inside a findall bag are observed anonymously (see C09)
    anon_ix = [i for i, v in enumerate(obs) if v[1] == 'Lq']
    if anon_ix:
        exp = [anonymize(a, anon_ix) for a in exp]
    subsets = [s for r in range(1, len(used) + 1) for s in itertools.combinations(used, r)]
    for sub in subsets:
        for style in ('inferred', 'explicit', 'explicit-generic', 'variadic', 'inferred-method', 'inferred-decorated', 'inferred-cursor', 'variadic-other-negative', 'inferred-engine-method', 'inferred-positional-only', 'inferred-partial', 'inferred-callable-object'):
            for yv in (False, True):
                del OPEN_CURSORS[:]
                if style in ('inferred-method', 'inferred-decorated', 'inferred-cursor', 'variadic-other-negative', 'inferred-engine-method', 'inferred-positional-only', 'inferred-partial', 'inferred-callable-object') and yv is False:
                    continue
                acc.n['evaluations'] += 1
                acc.n['validated'] += 1
                case = {'label': label, 'clauses': _j(clauses), 'goal': _j(goal), 'dyn': _j(dyn_extra),
                        'python': [list(k) for k in sub], 'style': style, 'yield': yv, 'text': text}
                key = '%s|%s|%s|%s' % (label, sub, style, yv)
                try:
                    got, status, exc, events = run_variant(pytext, clauses, goal, sub, style, yv, dyn_extra, exp)
                except Hang as e:
                    acc.violation('hang', index, case, '%s\npython predicates %s: %s' % (text, sub, e), key=key)
                    continue
                except Exception as e:  # noqa: BLE001
                    acc.violation('setup:' + impl.exc_sig(e), index, case, '%s\n%r' % (text, e), key=key)
                    continue
                acc.n['transitions'] += len(got) + 1
                if anon_ix:
                    got = [anonymize(a, anon_ix) for a in got]
                if status == 'exception':
                    acc.violation('raises:' + impl.exc_sig(exc), index, case,
                                  '%spython predicates %s (%s, yield %s): query %s raised %r' % (text, list(sub), style, yv, show_term(goal), exc), key=key)
                    continue
                if got != exp:
                    acc.violation('answers-differ', index, case,
                                  '%spython predicates %s (%s arity, yield %s): query %s\n  all-Prolog (reference): %s\n  observed: %s'
                                  % (text, list(sub), style, yv, show_term(goal), show_answers(exp), show_answers(got)), key=key)
                    continue
                if exp:
                    acc.n['nontrivial'] += 1
                acc.outcome(tuple(exp))
                # the same on an engine that was queried before the registration and on which an
                # earlier version of the predicates had been registered
                try:
                    gotw, stw, excw, _ = run_variant(pytext, clauses, goal, sub, style, yv, dyn_extra, exp, warm=True)
                except Exception as e:  # noqa: BLE001
                    gotw, stw, excw = [], 'exception', e
                acc.n['evaluations'] += 1
                acc.n['validated'] += 1
                acc.n['transitions'] += len(gotw) + 3
                if anon_ix:
                    gotw = [anonymize(a, anon_ix) for a in gotw]
                if stw == 'exception' or gotw != exp:
                    acc.violation('answers-differ-after-re-registration', index, dict(case, warm=True),
                                  '%spython predicates %s (%s arity, yield %s) registered AFTER the engine had been queried and an earlier version had been registered: query %s\n  all-Prolog (reference): %s\n  observed: %s %s'
                                  % (text, list(sub), style, yv, show_term(goal), show_answers(exp), show_answers(gotw), excw or ''), key=key + '|warm')
                # exception at every event of the python predicates (one style is enough to
                # enumerate the event points; all styles share the same event sequence)
                if style in ('inferred', 'variadic') and yv is False:
                    m = events['count']
                    # every fault point x the kinds of exception a predicate may raise (an exception of a
                    # class the engine itself might think of handling must come through all the same)
                    for j, cls in [(j, c) for j in range(1, m + 1) for c in EXC_CLASSES]:
                        if style == 'variadic' and cls is Injected:
                            continue
                        acc.n['evaluations'] += 1
                        acc.n['validated'] += 1
                        acc.n['fault_points'] += 1
                        c2 = dict(case, fire=j, exc_class=cls.__name__)
                        try:
                            got2, st2, exc2, ev2 = run_variant(pytext, clauses, goal, sub, style, yv, dyn_extra, exp, fire=j, cls=cls)
                        except Hang as e:
                            acc.violation('hang', index, c2, str(e), key=key + '|%d' % j)
                            continue
                        acc.n['transitions'] += len(got2) + 1
                        if anon_ix:
                            got2 = [anonymize(a, anon_ix) for a in got2]
                        if st2 != 'exception' or exc2 is not ev2['exc']:
                            acc.violation('exception-not-propagated-unchanged', index, c2,
                                          '%spython predicates %s (%s): %s raised at event %d/%d of the python predicates; '
                                          'the consumer saw status=%s exception=%r (raised object: %r)'
                                          % (text, list(sub), style, cls.__name__, j, m, st2, exc2, ev2['exc']), key=key + '|%d|%s' % (j, cls.__name__))
                        elif got2 != exp[:len(got2)]:
                            acc.violation('answers-before-exception-differ', index, c2,
                                          '%s answers before the exception %s are not a prefix of %s' % (text, show_answers(got2), show_answers(exp)), key=key + '|%d' % j)
    if len(acc.samples) < 2 and exp and len(used) >= 2:
        acc.sample({'program': text, 'query': show_term(goal), 'fact_predicates_used': [list(k) for k in used],
                    'variants_per_program': len(subsets) * 6, 'answers': len(exp)})


def tree_programs(maxops):
    idx = 0
    for n in range(maxops + 1):
        for t in bodies.trees(n):
            tr, op = bodies.cut_positions(t)
            if op:
                continue
            yield idx, t
            idx += 1


NSH = 32


def plan(tier):
    maxops = 1 if tier == 'quick' else 2
    return [('t', k, NSH, maxops) for k in range(NSH)] + [('m', k, NSH) for k in range(NSH)]


def meta_programs():
    idx = 0
    X, Y = V('X'), V('Y')
    goals = [F('o', X), F('m', X), F('r', X, Y), F('r', C(2), Y), A('z'), A('y0'), F('r', X, A('b'))]
    for goal in goals:
        for tag, g2, mk, usesL in c09.builtin_goals(goal, 0):
            if tag.startswith('findall-T') and tag not in ('findall-T0', 'findall-T1'):
                continue
            for via_var in (False, True):
                yield idx, goal, tag, g2, mk, usesL, via_var
                idx += 1


def run_shard(spec):
    acc = Acc()
    if spec[0] == 't':
        _, k, n, maxops = spec
        for idx, t in tree_programs(maxops):
            if idx % n != k:
                continue
            body, nl = bodies.instantiate(t)
            prog, nargs = bodies.context_program(body, nl)
            qv = [V('A%d' % i) for i in range(1, nargs + 1)] + [V('Z')]
            goal = F('c', *qv)
            seven = [C(7)] * nargs
            dyn = [F('p', *seven) if seven else A('p')]
            check_program(acc, ('t', idx, 0), prog, goal, dyn, bodies.show_tree(t))
            # next to dynamic facts of the python predicate itself
            if 'm' in bodies.show_tree(t) or 's' in bodies.show_tree(t):
                check_program(acc, ('t', idx, 1), prog, goal, dyn + [F('m', C(0))], bodies.show_tree(t) + ' +dyn m(0)')
    else:
        _, k, n = spec
        for idx, goal, tag, g2, mk, usesL, via_var in meta_programs():
            if idx % n != k:
                continue
            case, clause = c09.make_case(goal, tag, g2, mk, usesL, via_var, None)
            q = case.queries[0]
            check_program(acc, ('m', idx, 0), [clause], q, [], show_clause(clause))
    return acc


def replay(case):
    clauses, goal, dyn = _t(case['clauses']), _t(case['goal']), _t(case['dyn'])
    acc = Acc()
    check_program(acc, 0, clauses, goal, dyn, case.get('label', ''))
    return [(sig, g['detail']) for sig, g in acc.groups.items()]
