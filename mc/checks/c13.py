"""C13 - a stored fact is an independent copy of the asserted term."""
import itertools

from .. import impl
from ..diff import compile_cached, _j, _t
from ..refprolog import Cyclic, Unspecified, Budget, canon
from ..runner import Acc, watchdog, Hang
from ..terms import A, C, F, V, call, conj, TRUE, FAIL, show_clause, show_program, show_term, term_vars, pp
from ..worlds import ImplWorld, RefWorld, facts_impl, facts_ref

ID = 'C13'
LEVEL = 'model_checking'
RULE = ('(lives) the same variable objects asserted again after clear() or into a second engine, after 0..2 other assertions in each life, in 5 shapes: two simultaneous uses of the second fact are independent; (v) values of every kind: a variable bound to each of 17 values (atoms, compounds incl. zero-argument ones, lists, an opaque application object that is equal only to itself, Python constants incl. 0, the empty string, None, (), 0.0) and to compounds NAMED like conventional variable placeholders / internal markers and like every short string literal of the engine source reaches assert_fact / assertz / asserta directly, inside a structure, through an alias chain, as list element, as list tail, twice, next to unbound variables, behind a sibling argument, between list elements; after the binding is undone the fact holds exactly that value. (s) every ordered selection of <= K of the binding operations {X = f(Y), Y = a, X = Y, Y = g(Z), Z = b} with one '
        'assertz of p(X) / p(f(Y)) / p(_) / p(g(X,Y)) / p(g(Y,Y)) (one variable twice) inserted at every position (variables bound before, after, through '
        'a chain, inside a structure), the asserting clause continuing with true / a use p(W) of the fact / fail, run '
        'to exhaustion or abandoned after its first answer; followed by every later use alone, and by every pair (one of 4 uses, then one of 4 probing uses), from {p(a), '
        'p(b), p(f(b)), p(g(a,b)), p(g(a,a)), one clause using the fact twice (p(A),p(B),A=a,B=b), two simultaneously suspended '
        'enumerations p(A) and p(B) bound differently, two simultaneously suspended ground uses such as p(g(a,a)) and p(g(b,b)), a use followed by a five-solution goal on the same variable}; through compiled clauses and through the Python API (nested '
        'unify generators + assert_fact). Every step is executed on the real engine and on the reference model (copy at '
        'assert, fresh variables per use) and the observations compared. states = distinct observation traces; '
        'transitions = engine operations; non-trivial = the stored fact contains a variable or a structure')
ASSUMPTIONS = ['reference: RefProlog database (copy on assert with consistent renaming, rename on every use)',
               'operation sequences that would need a cyclic term are skipped']
X, Y, Z, W = V('X'), V('Y'), V('Z'), V('W')
a, b = A('a'), A('b')
OPS = [(X, F('f', Y)), (Y, a), (X, Y), (Y, F('g', Z)), (Z, b)]
ASSERTS = [F('p', X), F('p', F('f', Y)), F('p', ('v', ('_', 1))), F('p', F('g', X, Y)), F('p', F('g', Y, Y)),
           F('p', F('.', a, Y))]      # a partial list [a|Y]: the variable is the TAIL of a list cell
CONTS = ['true', 'use', 'fail']
USES = ['pa', 'pb', 'pfb', 'pgab', 'pgaa', 'twice', 'double', 'gdouble', 'enum', 'kept']
UCLAUSE = (F('u', V('A'), V('B')), conj(call(F('p', V('A'))), call(F('p', V('B'))), call(F('=', V('A'), a)), call(F('=', V('B'), b))))
# a use of the fact followed by a goal that binds what the use left open, in several ways (backtracking
# into that goal must undo its binding also inside the variables that came from the fact)
ECLAUSES = [(F('e', V('A')), conj(call(F('p', V('A'))), call(F('m2', V('A'))))),
            (F('m2', a), None), (F('m2', b), None), (F('m2', F('f', a)), None), (F('m2', F('g', a, b)), None), (F('m2', F('g', b, b)), None)]


def bounds(tier):
    return {'max_binding_operations': 3 if tier == 'quick' else 4, 'later_uses': 2}


def sequences(kmax):
    idx = 0
    for k in range(kmax + 1):
        for ops in itertools.permutations(range(len(OPS)), k):
            for pos in range(k + 1):
                for ai in range(len(ASSERTS)):
                    for cont in CONTS:
                        for mode in ('exhaust', 'abandon'):
                            if mode == 'abandon' and cont == 'fail':
                                continue
                            yield idx, ops, pos, ai, cont, mode
                            idx += 1


def use_sequences():
    out = [()]
    out += [(u,) for u in USES]
    # every use followed by each of three "probing" uses (a ground call, the clause using the fact
    # twice, two suspended enumerations)
    out += [(u1, u2) for u1 in ('pa', 'pfb', 'twice', 'double') for u2 in ('pa', 'twice', 'double', 'gdouble', 'enum')] + [('enum', 'kept')]
    return out


def clause_for(ops, pos, ai, cont):
    goals = [call(F('=', *OPS[i])) for i in ops]
    goals.insert(pos, call(F('assertz', ASSERTS[ai])))
    if cont == 'use':
        goals.append(call(F('p', W)))
    elif cont == 'fail':
        goals.append(FAIL)
    return (F('t', X, Y, Z, W), conj(*goals))


def do_use(w, use, is_ref):
    """one later use of the stored facts; -> observation"""
    qa, qb = V('Qa'), V('Qb')
    w.vars = {}
    if use in ('pa', 'pb', 'pfb', 'pgab', 'pgaa'):
        goal = {'pa': F('p', a), 'pb': F('p', b), 'pfb': F('p', F('f', b)), 'pgab': F('p', F('g', a, b)), 'pgaa': F('p', F('g', a, a))}[use]
        h = w.start(goal)
        n = 0
        while w.step(h) and n < 30:
            n += 1
        return ('count', n)
    if use == 'enum':
        h = w.start(F('e', qa))
        rows = []
        while w.step(h) and len(rows) < 40:
            rows.append(w.observe([qa], h))
        return ('rows', tuple(rows))
    if use == 'twice':
        goal = F('u', qa, qb)
        h = w.start(goal)
        rows = []
        while w.step(h) and len(rows) < 30:
            rows.append(w.observe([qa, qb], h))
        return ('rows', tuple(rows))
    if use == 'gdouble':
        # two simultaneously suspended GROUND uses that need different bindings of the fact's variables
        obs = []
        for g1, g2 in ((F('p', F('g', a, a)), F('p', F('g', b, b))), (F('p', a), F('p', b)), (F('p', F('f', a)), F('p', F('f', b))),
                       (F('p', F('.', a, F('.', a, A('[]')))), F('p', F('.', a, F('.', b, A('[]')))))):
            h1 = w.start(g1)
            n1 = 1 if w.step(h1) else 0
            h2 = w.start(g2, under=h1 if n1 else None)
            n2 = 0
            while w.step(h2) and n2 < 30:
                n2 += 1
            w.close(h2)
            n1b = 0
            while w.step(h1) and n1b < 30:
                n1b += 1
            w.close(h1)
            obs.append((n1, n2, n1b))
        return ('gdouble', tuple(obs))
    if use == 'kept':
        # the value of an answer is KEPT by the caller after the use has ended (what findall, a result
        # list, evaluate_bounded do); later uses of the fact - bound to a, to b, to f(b) - must not show
        # in the kept value: the variables that left with it belong to it
        if is_ref:
            n = 0
            h = w.start(F('p', qa))
            while w.step(h) and n < 30:
                n += 1
            return ('kept', n, 'unchanged')
        kept = []
        h = w.start(F('p', qa))
        while w.step(h) and len(kept) < 30:
            kept.append(impl.engine.get_value(w.term(qa)))
        from .c15 import raws
        before = raws(kept)
        changed = 'unchanged'
        for g in (F('p', a), F('p', b), F('p', F('f', b)), F('p', F('g', a, b)), F('p', F('.', a, F('.', b, A('[]'))))):
            h2 = w.start(g)
            while w.step(h2):
                if raws(kept) != before:
                    changed = 'a later use %s changed the kept values %r into %r' % (show_term(g), before, raws(kept))
                    break
            w.close(h2)
            if changed != 'unchanged':
                break
        return ('kept', len(kept), changed)
    if use == 'double':
        # two simultaneously suspended enumerations of the same facts, bound differently
        obs = []
        h1 = w.start(F('p', qa))
        if w.step(h1):
            h2 = w.start(F('p', qb), under=h1)
            if w.step(h2):
                obs.append(w.observe([qa, qb], h2))
                h3 = w.start_unify(qa, a, under=h2)
                if w.step(h3):
                    obs.append(w.observe([qa, qb], h3))
                    h4 = w.start_unify(qb, b, under=h3)
                    if w.step(h4):
                        obs.append(w.observe([qa, qb], h4))
                    else:
                        obs.append('B=b fails')
                    w.close(h4)
                else:
                    obs.append('A=a fails')
                w.close(h3)
            else:
                obs.append('second enumeration empty')
            w.close(h2)
        else:
            obs.append('first enumeration empty')
        w.close(h1)
        return ('double', tuple(obs))
    raise ValueError(use)


def run_compiled(w, is_ref, mode):
    qv = [V('Ta'), V('Tb'), V('Tc'), V('Tw')]
    w.vars = {}
    h = w.start(F('t', *qv))
    rows = []
    while w.step(h):
        rows.append(w.observe(qv, h))
        if mode == 'abandon' or len(rows) > 30:
            w.close(h)
            break
    return ('t', tuple(rows))


def run_api(w, is_ref, ops, pos, ai, cont, mode):
    """the same scenario through the Python API: nested unify generators + assert_fact"""
    w.vars = {}
    steps = [('bind', OPS[i]) for i in ops]
    steps.insert(pos, ('assert', ASSERTS[ai]))
    handles = []
    obs = []
    cur = None
    ok = True
    for kind, arg in steps:
        if kind == 'bind':
            h = w.start_unify(arg[0], arg[1], under=cur)
            handles.append(h)
            if not w.step(h):
                ok = False
                break
            cur = h
        else:
            t = arg
            if is_ref:
                w.assert_fact(t, under=cur)
            else:
                w.assert_fact(t)
            obs.append(('asserted', w.observe([X, Y, Z], cur)))
    if ok and cont == 'use':
        h = w.start(F('p', W), under=cur)
        handles.append(h)
        rows = []
        while w.step(h):
            rows.append(w.observe([X, Y, Z, W], h))
            if mode == 'abandon' or len(rows) > 30:
                break
        obs.append(('use', tuple(rows)))
    for h in reversed(handles):
        w.close(h)
    obs.append(('after', w.observe([X, Y, Z])))
    return ('api', tuple(obs))


def run_case(flavor, ops, pos, ai, cont, mode, uses, pytext):
    """-> ('ok', trace, steps, nontrivial) | ('skip', why) | ('violation', sig, detail)"""
    clause = clause_for(ops, pos, ai, cont)
    rw = RefWorld(steps=5000, depth=40)
    rw.load([clause, UCLAUSE] + ECLAUSES)
    iw = ImplWorld()
    iw.load(compile_cached(show_program([UCLAUSE] + ECLAUSES)))
    if flavor == 'compiled':
        iw.load(pytext)
    trace = []
    plan_ = [('scenario', None)] + [('use', u) for u in uses] + [('read', None)]
    nsteps = 0
    for kind, arg in plan_:
        try:
            if kind == 'scenario':
                exp = run_compiled(rw, True, mode) if flavor == 'compiled' else run_api(rw, True, ops, pos, ai, cont, mode)
            elif kind == 'use':
                exp = do_use(rw, arg, True)
            else:
                exp = ('read', facts_ref(rw, ('p', 1)))
        except (Cyclic, Unspecified, Budget) as e:
            return ('skip', type(e).__name__)
        label = describe(flavor, clause, ops, pos, ai, cont, mode, uses) + 'step: %s %s\n' % (kind, arg or '')
        try:
            with watchdog(60):
                if kind == 'scenario':
                    got = run_compiled(iw, False, mode) if flavor == 'compiled' else run_api(iw, False, ops, pos, ai, cont, mode)
                elif kind == 'use':
                    got = do_use(iw, arg, False)
                else:
                    got = ('read', facts_impl(iw, ('p', 1)))
        except Hang as e:
            return ('violation', '%s:%s:hang' % (flavor, arg or kind), label + str(e))
        except Exception as e:  # noqa: BLE001
            return ('violation', '%s:%s:raises:%s' % (flavor, arg or kind, impl.exc_sig(e)), label + 'raised %r; the model gives %r' % (e, exp))
        nsteps += 1
        if got != exp:
            return ('violation', '%s:%s:differs' % (flavor, arg or kind), label + '  observed: %r\n  model:    %r' % (got, exp))
        trace.append(exp)
    final = trace[-1][1]
    nontrivial = any(r != 'runaway' and any(t[0] in ('v', 'f') for t in r) for r in final)
    return ('ok', tuple(trace), nsteps, nontrivial)


def describe(flavor, clause, ops, pos, ai, cont, mode, uses):
    if flavor == 'compiled':
        s = 'compiled: %s\n%s\nquery t(A,B,C,W) %s\n' % (show_clause(clause), show_clause(UCLAUSE), 'run to exhaustion' if mode == 'exhaust' else 'abandoned after the first answer')
    else:
        steps = ['%s = %s' % (show_term(OPS[i][0]), show_term(OPS[i][1])) for i in ops]
        steps.insert(pos, 'assert_fact(%s)' % show_term(ASSERTS[ai]))
        s = 'Python API (nested unify generators): %s; then %s; all generators closed\n' % (' ; '.join(steps), {'true': 'nothing', 'use': 'enumerate p(W) (%s)' % mode, 'fail': 'nothing'}[cont])
    return s + 'later uses: %s\n' % (list(uses),)


NSH = 64


# ---- values of every kind ------------------------------------------------------------------------
# "A fact stored by assert holds the value its argument had at the moment of the assertion": for
# every kind of value a variable can be bound to through the API - atoms, compounds, lists, and Python
# constants incl. the ones that are false in a boolean context - and every way the variable reaches
# the fact (directly, inside a structure, through an alias chain, as list element / list tail)
def value_menu():
    out = [A('a'), A('[]'), F('f', A('b')), F('foo'), F('f', F('foo'), A('b')), F('.', A('a'), A('[]')), C(HANDLE), F('f', C(HANDLE), A('b')), C(0), C(1), C(-1), C(''), C('str'), C(None), C(()), C(0.0), C(2.5)]
    # compounds whose NAME could mean something to an implementation (a placeholder for variables, an
    # internal marker): conventional ones, and every short string literal of the engine's own source
    for nm in MARKER_NAMES + names_in_engine_source():
        for t in (F(nm, C(0)), F(nm, C(1), A('a'))):
            if t not in out:
                out.append(t)
    return out


class Handle:
    """an opaque handle of the application (a connection, a widget): equal only to itself, not copyable by value"""
    def __repr__(self):
        return '<Handle>'

    def __deepcopy__(self, memo):
        return Handle()

    def __copy__(self):
        return Handle()


HANDLE = Handle()
MARKER_NAMES = ['$VAR', '$', '_', '_G0', '_0', 'var', 'variable', 'Variable', '?', '$ref', '$cut', 'ref', 'bound', 'copy']
_ENGINE_NAMES = []


def names_in_engine_source():
    import ast
    import os
    if _ENGINE_NAMES:
        return _ENGINE_NAMES
    out = []
    try:
        tree = ast.parse(open(os.path.join(impl.REPO, 'src', 'yldprolog', 'engine.py'), encoding='utf8').read())
    except (SyntaxError, OSError):
        return out
    for node in ast.walk(tree):
        if isinstance(node, ast.Constant) and isinstance(node.value, str):
            v = node.value
            if 0 < len(v) <= 12 and v.isprintable() and ' ' not in v and v not in out and v not in MARKER_NAMES:
                out.append(v)
    _ENGINE_NAMES.extend(out)
    return out


SHAPES = ['direct', 'in-structure', 'alias-chain', 'list-element', 'list-tail', 'twice', 'next-to-a-variable', 'after-a-sibling', 'between-elements']


def check_value(val, shape, via):
    """-> None | (sig, detail)"""
    from .. import impl as _i
    yp = _i.YP()
    x, y = yp.variable(), yp.variable()
    ev = val[1] if val[0] == 'c' else _i.to_engine(yp, val, {})
    gens = []
    if shape == 'alias-chain':
        g = iter(_i.engine.unify(x, y))
        next(g)
        gens.append(g)
        g = iter(_i.engine.unify(y, ev))
    else:
        g = iter(_i.engine.unify(x, ev))
    next(g)
    gens.append(g)
    arg = {'direct': x, 'alias-chain': x, 'in-structure': yp.functor('h', [x, yp.atom('k')]), 'list-element': yp.listpair(x, yp.ATOM_NIL),
           'list-tail': yp.listpair(yp.atom('k'), x), 'twice': yp.functor('h', [x, x]),
           'next-to-a-variable': yp.functor('h', [x, yp.variable(), yp.functor('g', [yp.variable()])]),
           'after-a-sibling': yp.functor('h', [yp.atom('k'), x]), 'between-elements': yp.makelist([yp.atom('k'), x, yp.atom('k')])}[shape]
    if via == 'assert_fact':
        yp.assert_fact(yp.atom('val'), [arg])
    else:
        for _ in yp.query(via, [yp.functor('val', [arg])]):
            pass
    for g in reversed(gens):
        g.close()
    # now nothing is bound any more; the fact must still hold the value
    r = yp.variable()
    rows = []
    for _ in yp.query('val', [r]):
        rows.append(_i.observe([r]))
    want_inner = (('c', repr(val[1])) if isinstance(val[1], (list, tuple, dict, set)) else ('c', val[1])) if val[0] == 'c' else canon([val])[0]
    want = {'direct': want_inner, 'alias-chain': want_inner, 'in-structure': ('f', 'h', (want_inner, ('a', 'k'))), 'list-element': ('f', '.', (want_inner, ('a', '[]'))),
            'list-tail': ('f', '.', (('a', 'k'), want_inner)), 'twice': ('f', 'h', (want_inner, want_inner)),
            'next-to-a-variable': ('f', 'h', (want_inner, ('v', 0), ('f', 'g', (('v', 1),)))),
            'after-a-sibling': ('f', 'h', (('a', 'k'), want_inner)),
            'between-elements': ('f', '.', (('a', 'k'), ('f', '.', (want_inner, ('f', '.', (('a', 'k'), ('a', '[]')))))))}[shape]
    if rows != [(want,)]:
        return ('asserted-value-lost', 'a variable bound to %r reaches %s as %s; after the binding is undone the fact reads %r, expected %r' % (val[1] if val[0] == 'c' else pp(val), via, shape, rows, [(want,)]))
    # and it matches exactly that value: a different constant does not match
    other = yp.atom('something else')
    probe = {'direct': other, 'alias-chain': other, 'in-structure': yp.functor('h', [other, yp.atom('k')]), 'list-element': yp.listpair(other, yp.ATOM_NIL),
             'list-tail': yp.listpair(yp.atom('k'), other), 'twice': yp.functor('h', [other, other]),
             'next-to-a-variable': yp.functor('h', [other, yp.variable(), yp.variable()]),
             'after-a-sibling': yp.functor('h', [yp.atom('k'), other]), 'between-elements': yp.makelist([yp.atom('k'), other, yp.atom('k')])}[shape]
    if len(list(yp.query('val', [probe]))) != 0:
        return ('asserted-value-became-variable', 'a variable bound to %r reaches %s as %s; the stored fact also matches the atom \'something else\' in that place' % (val[1] if val[0] == 'c' else pp(val), via, shape))
    return None


# ---- the same variable objects asserted in two engine lives -------------------------------------------
# The caller's variable objects outlive an engine's store: the same objects are asserted again after clear(),
# or into another engine, after 0..2 other assertions in each life.  The second fact is a fact like any other:
# two uses of it at the same time are instantiated independently, and it reads back with variables of its own.
LIFE_SHAPES = ['q(X)', 'q(f(X))', 'q(X,X)', 'q([X|Y])', 'q(X,Y)']


def check_lives(shape, mode, n1, n2):
    from .. import impl as _i
    e1 = _i.YP()
    e2 = e1 if mode == 'after-clear' else _i.YP()
    x, y = e1.variable(), e1.variable()

    def args(yp):
        return {'q(X)': [x], 'q(f(X))': [yp.functor('f', [x])], 'q(X,X)': [x, x], 'q([X|Y])': [yp.listpair(x, y)], 'q(X,Y)': [x, y]}[shape]
    for i in range(n1):
        e1.assert_fact(e1.atom('filler'), [e1.variable(), e1.atom('k%d' % i)])
    e1.assert_fact(e1.atom('q'), args(e1))
    if mode == 'after-clear':
        e1.clear()
    for i in range(n2):
        e2.assert_fact(e2.atom('filler'), [e2.variable(), e2.atom('k%d' % i)])
    e2.assert_fact(e2.atom('q'), args(e2))
    # two uses at once, instantiated differently
    nargs = len(args(e2))
    a1 = [e2.variable() for _ in range(nargs)]
    a2 = [e2.variable() for _ in range(nargs)]
    pairs = 0
    for _ in e2.query('q', a1):
        for _ in e2.query('q', a2):
            va = {'q(X)': e2.atom('a'), 'q(f(X))': e2.functor('f', [e2.atom('a')]), 'q(X,X)': e2.atom('a'), 'q([X|Y])': e2.listpair(e2.atom('a'), e2.ATOM_NIL), 'q(X,Y)': e2.atom('a')}[shape]
            vb = {'q(X)': e2.atom('b'), 'q(f(X))': e2.functor('f', [e2.atom('b')]), 'q(X,X)': e2.atom('b'), 'q([X|Y])': e2.listpair(e2.atom('b'), e2.ATOM_NIL), 'q(X,Y)': e2.atom('b')}[shape]
            for _ in _i.engine.unify(a1[0], va):
                for _ in _i.engine.unify(a2[0], vb):
                    pairs += 1
    what = 'the caller\'s variables X, Y asserted as %s (after %d other assertions), then %s and asserted again (after %d other assertions)' % (shape, n1, 'the engine cleared' if mode == 'after-clear' else 'into a second engine', n2)
    if pairs != 1:
        return ('lives:two-uses-of-a-fact-not-independent', '%s: q(..A..), q(..B..), A = a, B = b has %d solutions instead of 1' % (what, pairs))
    if x.get_value() is not x or y.get_value() is not y:
        return ('lives:caller-variable-bound', '%s: afterwards the caller\'s own variable is bound' % what)
    return None


def run_lives(acc):
    idx = 0
    for shape in LIFE_SHAPES:
        for mode in ('after-clear', 'second-engine'):
            for n1 in range(3):
                for n2 in range(3):
                    idx += 1
                    acc.n['evaluations'] += 1
                    acc.n['validated'] += 1
                    try:
                        bad = check_lives(shape, mode, n1, n2)
                    except Exception as e:  # noqa: BLE001
                        bad = ('lives:raises:' + impl.exc_sig(e), '%s %s %d %d raised %r' % (shape, mode, n1, n2, e))
                    if bad:
                        acc.violation(bad[0], ('Lv', idx), {'lives': [shape, mode, n1, n2]}, bad[1], key='lives|%s|%s|%d|%d' % (shape, mode, n1, n2))
                        continue
                    acc.n['transitions'] += 6
                    acc.n['nontrivial'] += 1
                    acc.outcome(('lives', shape, mode))


def run_values(acc):
    run_lives(acc)
    idx = 0
    for vi, val in enumerate(value_menu()):
        for shape in SHAPES:
            for via in ('assert_fact', 'assertz', 'asserta'):
                idx += 1
                acc.n['evaluations'] += 1
                acc.n['validated'] += 1
                try:
                    bad = check_value(val, shape, via)
                except Exception as e:  # noqa: BLE001
                    bad = ('values:raises:' + impl.exc_sig(e), '%r %s %s raised %r' % (val, shape, via, e))
                if bad:
                    acc.violation('values:' + bad[0], ('V', idx), {'value': [vi, shape, via]}, bad[1], key='value|%d|%s|%s' % (vi, shape, via))
                    continue
                acc.n['transitions'] += 4
                acc.n['nontrivial'] += 1
                acc.outcome(('value', vi, shape))


def plan(tier):
    kmax = 3 if tier == 'quick' else 4
    return [(kmax, k, NSH) for k in range(NSH)] + [('values',)]


def run_shard(spec):
    if spec[0] == 'values':
        acc = Acc()
        run_values(acc)
        return acc
    kmax, k, n = spec
    acc = Acc()
    useqs = use_sequences()
    for idx, ops, pos, ai, cont, mode in sequences(kmax):
        if idx % n != k:
            continue
        clause = clause_for(ops, pos, ai, cont)
        try:
            pytext = impl.compile_text(show_program([clause]))
        except Exception as e:  # noqa: BLE001
            acc.n['evaluations'] += 1
            acc.n['validated'] += 1
            acc.violation('compile:' + impl.exc_sig(e), (idx,), {'text': show_clause(clause)}, show_clause(clause) + repr(e))
            continue
        for flavor in ('compiled', 'api'):
            if flavor == 'api' and cont == 'fail':
                continue
            for ui, uses in enumerate(useqs):
                if len(ops) >= 3 and len(uses) > 1 and kmax == 3:
                    continue   # quick: pairs of later uses only after <= 2 binding operations
                acc.n['evaluations'] += 1
                r = run_case(flavor, ops, pos, ai, cont, mode, uses, pytext)
                if r[0] == 'skip':
                    acc.skipped[r[1]] += 1
                    continue
                acc.n['validated'] += 1
                if r[0] == 'violation':
                    case = {'flavor': flavor, 'ops': list(ops), 'pos': pos, 'ai': ai, 'cont': cont, 'mode': mode, 'uses': list(uses)}
                    acc.violation(r[1], (len(ops), idx, ui), case, r[2],
                                  key='%s|%s|%d|%d|%s|%s|%s' % (flavor, list(ops), pos, ai, cont, mode, list(uses)))
                    continue
                acc.n['transitions'] += r[2]
                if r[3]:
                    acc.n['nontrivial'] += 1
                acc.outcome(r[1])
                if r[3] and len(uses) == 2 and idx % 331 == 0 and ui == 20:
                    acc.sample({'scenario': describe(flavor, clause, ops, pos, ai, cont, mode, uses), 'observations': repr(r[1])[:400]}, limit=1)
    return acc


def replay(case):
    if 'lives' in case:
        bad = check_lives(*case['lives'])
        return [bad] if bad else []
    if 'value' in case:
        vi, shape, via = case['value']
        bad = check_value(value_menu()[vi], shape, via)
        return [('values:' + bad[0], bad[1])] if bad else []
    clause = clause_for(tuple(case['ops']), case['pos'], case['ai'], case['cont'])
    pytext = impl.compile_text(show_program([clause]))
    r = run_case(case['flavor'], tuple(case['ops']), case['pos'], case['ai'], case['cont'], case['mode'], tuple(case['uses']), pytext)
    if r[0] == 'violation':
        return [(r[1], r[2])]
    return []
