"""C01 - compiled clauses compute exactly Prolog's answers, in order."""
import itertools

from ..diff import Case, account
from ..runner import Acc
from ..terms import A, C, F, V, L, NIL, call, conj, TRUE, FAIL, show_clause, show_term

ID = 'C01'
LEVEL = 'model_checking'
RULE = ('L1: every single-clause predicate p(t1..tk) :- B, k<=2 over 13 head-argument shapes (k=3 over 6, '
        'and k=0), B in {true, one [thorough: or two] goals from q(X) q(Y) r(X,Y) X=Y X=a X\\=a Y=f(X) fail}, each '
        'queried with EVERY tuple of query-argument shapes (unbound, aliased, partial, ground). L2: every program '
        'of <=2 [thorough: 3] clauses over p/1,q/1 with head argument in {X,a,b,f(X)} and body of <=1 goal '
        '[thorough, 2-clause programs: <=2 goals] over p|q x {X,Y,a,b,f(X)} (direct, mutual and left recursion, '
        'duplicate clauses), queries p(A) p(a) p(f(A)) q(A). L3: append/member/len/nat/rev/in/path idioms over '
        'every DAG on 3 nodes in every argument mode. Each program is compiled, loaded into a fresh engine and '
        'every query is compared answer by answer (bindings up to renaming incl. aliasing, order, multiplicity, '
        'termination under a deterministic step budget, no exception) with RefProlog. states = distinct '
        'per-program outcome tuples; transitions = next() calls; non-trivial = some query has an answer')
ASSUMPTIONS = ['RefProlog is SLD resolution without occurs check; queries that would need a cyclic term are skipped',
               'searches RefProlog cannot finish in its budget are compared on their first 5 answers only',
               'programs larger than the bounds are not covered']
X, Y, T = V('X'), V('Y'), V('T')


def bounds(tier):
    return {'L1_body_goals': 1 if tier == 'quick' else 2, 'L2_clauses': 2 if tier == 'quick' else 3,
            'L2_body_goals_two_clause_programs': 1 if tier == 'quick' else 2}


# ---------------------------------------------------------------- L1
def head_shapes():
    return [X, Y, ('ANON',), A('a'), C(1), F('f', X), F('f', A('a')), F('g', X, Y), F('g', X, X), NIL,
            L([X], T), L([X, Y]), L([A('a')], X)]


HEAD3 = [0, 2, 3, 5, 8, 10]   # X _ a f(X) g(X,X) [X|T]
QA, QB = V('A'), V('B')
QUERY_SHAPES = [QA, QB, A('a'), A('b'), C(1), F('f', QA), F('f', A('a')), F('g', QA, QB), F('g', QA, QA),
                L([A('a'), A('b')]), L([QA], QB)]
QUERY3 = [QA, QB, A('a'), F('f', QA), F('g', QA, QB), L([QA], QB)]
GOALS = [call(F('q', X)), call(F('q', Y)), call(F('r', X, Y)), call(F('=', X, Y)), call(F('=', X, A('a'))),
         call(F('\\=', X, A('a'))), call(F('=', Y, F('f', X))), FAIL]
SUPPORT = [(F('q', A('a')), None), (F('q', A('b')), None), (F('r', A('a'), A('b')), None), (F('r', X, X), None)]


def l1_heads():
    hs = head_shapes()
    heads = [()]
    heads += [(h,) for h in hs]
    heads += [(h1, h2) for h1 in hs for h2 in hs]
    heads += [tuple(hs[i] for i in ix) for ix in itertools.product(HEAD3, repeat=3)]
    return heads


def l1_bodies(maxgoals):
    bs = [TRUE] + [g for g in GOALS]
    if maxgoals >= 2:
        bs += [(',', g1, g2) for g1 in GOALS for g2 in GOALS]
    return bs


def fix_anon(args):
    out = []
    n = 0
    for a in args:
        if a == ('ANON',):
            n += 1
            out.append(('v', ('_', n)))
        else:
            out.append(a)
    return out


def l1_queries(k):
    if k == 0:
        return [A('p')]
    shapes = QUERY3 if k == 3 else QUERY_SHAPES
    return [F('p', *tup) for tup in itertools.product(shapes, repeat=k)]


def l1_cases(maxgoals):
    idx = 0
    for head in l1_heads():
        for body in l1_bodies(maxgoals):
            yield idx, head, body
            idx += 1


def l1_case(head, body):
    args = fix_anon(head)
    h = F('p', *args) if args else A('p')
    return Case([(SUPPORT, True, True), ([(h, body)], True, False)], [], l1_queries(len(args)), repeat=1,
                budget=True)


# ---------------------------------------------------------------- L2
def l2_clauses(maxgoals):
    heads = [F(p, a) for p in ('p', 'q') for a in (X, A('a'), A('b'), F('f', X))]
    goals = [call(F(p, a)) for p in ('p', 'q') for a in (X, Y, A('a'), A('b'), F('f', X))]
    bodies = [TRUE] + goals
    if maxgoals >= 2:
        bodies += [(',', g1, g2) for g1 in goals for g2 in goals]
    return [(h, b) for h in heads for b in bodies]


L2_QUERIES = [F('p', QA), F('p', A('a')), F('p', F('f', QA)), F('q', QA)]


def l2_cases(nclauses, maxgoals):
    cl = l2_clauses(maxgoals)
    idx = 0
    for prog in itertools.product(range(len(cl)), repeat=nclauses):
        yield idx, prog
        idx += 1


def l2_case(cl, prog):
    return Case([([cl[i] for i in prog], True, False)], [], L2_QUERIES, repeat=2, ref_steps=3000, ref_depth=40,
                budget=True)


# ---------------------------------------------------------------- L3
def l3_cases():
    H, R, N, Z, Acc_ = V('H'), V('R'), V('N'), V('Z'), V('Ac')
    anon = lambda n: ('v', ('_', n))  # noqa: E731
    app = [(F('app', NIL, V('L'), V('L')), None),
           (F('app', L([H], T), V('L'), L([H], R)), call(F('app', T, V('L'), R)))]
    mem = [(F('mem', X, L([X], anon(1))), None), (F('mem', X, L([anon(1)], T)), call(F('mem', X, T)))]
    ln = [(F('len', NIL, A('z')), None), (F('len', L([anon(1)], T), F('s', N)), call(F('len', T, N)))]
    nat = [(F('nat', A('z')), None), (F('nat', F('s', N)), call(F('nat', N)))]
    rev = [(F('rev', NIL, Acc_, Acc_), None),
           (F('rev', L([H], T), Acc_, R), call(F('rev', T, L([H], Acc_), R)))]
    tin = [(F('in', X, F('t', anon(1), X, anon(2))), None),
           (F('in', X, F('t', V('Lt'), anon(1), anon(2))), call(F('in', X, V('Lt')))),
           (F('in', X, F('t', anon(1), anon(2), V('Rt'))), call(F('in', X, V('Rt'))))]
    a, b, c = A('a'), A('b'), A('c')
    lists = [NIL, L([a]), L([a, b]), L([a, b, c]), L([a, a]), L([QA]), L([QA, QB]), L([a], QA), L([QA], QB),
             L([a, QA]), QA]
    cases = []
    cases.append(('append', app, [F('app', x, y, z) for x in lists for y in [NIL, L([c]), QB, V('Cq')]
                                  for z in [NIL, L([a]), L([a, b]), L([a, b, c]), L([a, c]), V('Dq'), L([V('Dq')], V('Eq'))]]))
    cases.append(('member', mem, [F('mem', x, l) for x in [a, b, c, QA, F('f', QA)] for l in lists +
                                  [L([F('f', a), F('f', QB)]), L([a, b], V('Cq'))]]))
    cases.append(('len', ln, [F('len', l, n) for l in lists for n in [V('Nq'), A('z'), F('s', A('z')), F('s', F('s', A('z'))), F('s', V('Nq'))]]))
    cases.append(('nat', nat, [F('nat', n) for n in [V('Nq'), A('z'), F('s', A('z')), F('s', F('s', V('Nq'))), a]]))
    cases.append(('rev', rev, [F('rev', l, NIL, r) for l in lists for r in [V('Rq'), NIL, L([b, a]), L([a]), L([V('Rq')], V('Sq'))]]))
    t1 = F('t', A('nil'), C(1), A('nil'))
    t2 = F('t', t1, C(2), F('t', A('nil'), C(3), A('nil')))
    t3 = F('t', F('t', QA, C(1), A('nil')), QB, A('nil'))
    cases.append(('bintree', tin, [F('in', x, t) for x in [QA, C(1), C(3), C(4), V('Xq')] for t in [A('nil'), t1, t2, t3, V('Tq')]]))
    # path over every DAG on 3 nodes (edges only from a lower to a higher node in one of the
    # 6 orders => every labelled DAG on {a,b,c}), plus one cyclic graph compared on a prefix
    nodes = [a, b, c]
    seen = set()
    for order in itertools.permutations(range(3)):
        fw = [(order[i], order[j]) for i in range(3) for j in range(i + 1, 3)]
        for mask in range(1 << len(fw)):
            edges = tuple(sorted(e for bit, e in enumerate(fw) if mask >> bit & 1))
            if edges in seen:
                continue
            seen.add(edges)
            prog = [(F('edge', nodes[i], nodes[j]), None) for i, j in edges]
            prog += [(F('path', X, Y), call(F('edge', X, Y))),
                     (F('path', X, Y), (',', call(F('edge', X, V('Z'))), call(F('path', V('Z'), Y))))]
            qs = [F('path', s, t) for s in [QA, a, b, c] for t in [QB, a, c, QA]]
            cases.append(('path%s' % (list(edges),), prog, qs))
    cyc = [(F('edge', a, b), None), (F('edge', b, a), None),
           (F('path', X, Y), call(F('edge', X, Y))),
           (F('path', X, Y), (',', call(F('edge', X, V('Z'))), call(F('path', V('Z'), Y))))]
    cases.append(('path-cyclic', cyc, [F('path', a, QB), F('path', QA, QB)]))
    return cases


# ---------------------------------------------------------------- plan / run
NSH = 48


def plan(tier):
    q = tier == 'quick'
    sh = [('L1', k, NSH, 1 if q else 2) for k in range(NSH)]
    sh += [('L2', k, NSH, 2, 1) for k in range(NSH)]
    if not q:
        sh += [('L2', k, 4 * NSH, 3, 1) for k in range(4 * NSH)]
        sh += [('L2', k, 4 * NSH, 2, 2) for k in range(4 * NSH)]
    sh += [('L3', k, 8) for k in range(8)]
    return sh


def run_shard(spec):
    acc = Acc()
    if spec[0] == 'L1':
        _, k, n, maxgoals = spec
        for idx, head, body in l1_cases(maxgoals):
            if idx % n != k:
                continue
            case = l1_case(head, body)
            res = case.run()
            account(acc, ('L1', idx), case, res, key=show_clause(case.scripts[1][0][0]))
            if idx % 977 == 0 and res['status'] == 'ok':
                acc.sample({'layer': 'L1', 'clause': show_clause(case.scripts[1][0][0]),
                            'queries_compared': res['queries']}, limit=1)
    elif spec[0] == 'L2':
        _, k, n, ncl, maxgoals = spec
        cl = l2_clauses(maxgoals)
        for idx, prog in l2_cases(ncl, maxgoals):
            if idx % n != k:
                continue
            if maxgoals == 2 and all(cl[i][1][0] != ',' for i in prog):
                continue  # already covered by the one-goal enumeration
            case = l2_case(cl, prog)
            res = case.run()
            account(acc, ('L2', ncl, maxgoals, idx), case, res, key=case.describe()['scripts'][0]['text'])
            if idx % 5003 == 0 and res['status'] == 'ok' and res['nontrivial']:
                acc.sample({'layer': 'L2', 'program': case.describe()['scripts'][0]['text']}, limit=1)
    else:
        _, k, n = spec
        for idx, (name, prog, queries) in enumerate(l3_cases()):
            if idx % n != k:
                continue
            case = Case([(prog, True, False)], [], queries, repeat=2, ref_steps=4000, ref_depth=40, budget=True)
            res = case.run()
            account(acc, ('L3', idx), case, res, key=name)
            if res['status'] == 'ok':
                acc.sample({'layer': 'L3', 'idiom': name, 'queries_compared': res['queries']}, limit=1)
    return acc


def replay(case_json):
    case = Case.from_json(case_json)
    res = case.run()
    if res['status'] == 'violation':
        return [(res['sig'], res['detail'])]
    return []
