"""C01 - compiled clauses compute exactly Prolog's answers, in order."""
import itertools

from ..diff import Case, account
from ..runner import Acc
from ..terms import A, C, F, V, L, NIL, call, conj, TRUE, FAIL, show_clause, show_term

ID = 'C01'
LEVEL = 'model_checking'
RULE = ('(L9) every body of 2 or 3 goals out of {X=Y, Y=Z, Z=X, h(X,Y), h(Y,Z), h(Z,X), s(X), s(Y), s(Z)} with h(V,V). h(b,_). in both clause orders (chains of aliases made and undone in different orders), queried p(A,B,C) p(A,A,C) p(A,B,A); (L8) every parenthesisation of up to 4 goals out of {m(Vi), o(Vi), m(V1), true, fail}; (L7) every ordered triple of a 13-clause alphabet over two predicates in which the same variable names play different roles and some clauses are decidable at compile time (fail first, true before fail); ' 'L1: every single-clause predicate p(t1..tk) :- B, k<=2 over 14 head-argument shapes incl. [X,Y|T] (k=3 over 7, '
        'and k=0), B in {true, one [thorough: or two] goals from q(X) q(Y) r(X,Y) X=Y X=a X\\=a Y=f(X) fail}, each '
        'queried with EVERY tuple of query-argument shapes (unbound, aliased, partial, ground). L2: every program '
        'of <=2 [thorough: 3] clauses over p/1,q/1 with head argument in {X,a,b,f(X)} and body of <=1 goal '
        '[thorough, 2-clause programs: <=2 goals] over p|q x {X,Y,a,b,f(X)} (direct, mutual and left recursion, '
        'duplicate clauses), queries p(A) p(a) p(f(A)) q(A). L1b: every body of 2 or 3 [thorough: 4] goals over 10 goals whose outcome depends on WHEN they are called (callees using \\=, a cut, negation; explicit unifications). L2b: every sequence of 3 [thorough: 4] clauses of ONE predicate r/2 over 6 head shapes x 4 bodies (the same variable name as plain head argument, nested, repeated or body-only in different clauses). L3: append/member/len/nat/rev/in/path idioms over '
        'every DAG on 3 nodes in every argument mode. L4: 6 templates with many anonymous variables (alone and combined in one program, so that the program-wide numbering of _ reaches 13) x EVERY injective naming of their two named variables from a menu of 44 names (_1.._14, look-alikes of the compiler\'s own argument, loop, flag and prefix names, Python constants). L5: two activations of the same clause alive at once (two goals of one body, recursion over a list, caller and callee) over 11 term shapes whose variables are anonymous, named or mixed, in the head or in a body goal, queried with equal, different, aliased and unbound arguments. L6: sizes beyond these bounds - pipeline clauses path(In,Out) :- step(In,A1),...,step(Ak,Out), a head variable used only by the last goal, a variable shared by the first and last goal only, for EVERY body length 1..19; tables of N clauses plus a catch-all for 23 values of N up to 130; programs whose predicates are NOT contiguous (every interleaving of 3..5 clauses of p/1, q/1, p/2 with a non-adjacent pair, a split recursive predicate); heads of N arguments (a constant last, one variable first and last) for 14 values of N up to 300. Each program is compiled, loaded into a fresh engine and '
        'every query is compared answer by answer (bindings up to renaming incl. aliasing, order, multiplicity, '
        'termination under a deterministic step budget, no exception) with RefProlog. states = distinct '
        'per-program outcome tuples; transitions = next() calls; non-trivial = some query has an answer')
ASSUMPTIONS = ['RefProlog is SLD resolution without occurs check; queries that would need a cyclic term are skipped',
               'searches RefProlog cannot finish in its budget are compared on their first 5 answers only',
               'programs larger than the bounds are not covered']
X, Y, T = V('X'), V('Y'), V('T')


def bounds(tier):
    return {'L1_body_goals': 1 if tier == 'quick' else 2, 'L2_clauses': 2 if tier == 'quick' else 3,
            'L2_body_goals_two_clause_programs': 1 if tier == 'quick' else 2}


# ---------------------------------------------------------------- L1
def head_shapes():
    return [X, Y, ('ANON',), A('a'), C(1), F('f', X), F('f', A('a')), F('g', X, Y), F('g', X, X), NIL,
            L([X], T), L([X, Y]), L([A('a')], X), L([X, Y], T)]


HEAD3 = [0, 2, 3, 5, 8, 10, 13]   # X _ a f(X) g(X,X) [X|T] [X,Y|T]
QA, QB = V('A'), V('B')
QUERY_SHAPES = [QA, QB, A('a'), A('b'), C(1), F('f', QA), F('f', A('a')), F('g', QA, QB), F('g', QA, QA),
                L([A('a'), A('b')]), L([QA], QB), L([A('a'), A('b'), A('c')])]
QUERY3 = [QA, QB, A('a'), F('f', QA), F('g', QA, QB), L([QA], QB)]
GOALS = [call(F('q', X)), call(F('q', Y)), call(F('r', X, Y)), call(F('=', X, Y)), call(F('=', X, A('a'))),
         call(F('\\=', X, A('a'))), call(F('=', Y, F('f', X))), FAIL]
SUPPORT = [(F('q', A('a')), None), (F('q', A('b')), None), (F('r', A('a'), A('b')), None), (F('r', X, X), None)]


def l1_heads():
    hs = head_shapes()
    heads = [()]
    heads += [(h,) for h in hs]
    heads += [(h1, h2) for h1 in hs for h2 in hs]
    heads += [tuple(hs[i] for i in ix) for ix in itertools.product(HEAD3, repeat=3)]
    return heads


def l1_bodies(maxgoals):
    bs = [TRUE] + [g for g in GOALS]
    if maxgoals >= 2:
        bs += [(',', g1, g2) for g1 in GOALS for g2 in GOALS]
    return bs


def fix_anon(args):
    out = []
    n = 0
    for a in args:
        if a == ('ANON',):
            n += 1
            out.append(('v', ('_', n)))
        else:
            out.append(a)
    return out


def l1_queries(k):
    if k == 0:
        return [A('p')]
    shapes = QUERY3 if k == 3 else QUERY_SHAPES
    return [F('p', *tup) for tup in itertools.product(shapes, repeat=k)]


def l1_cases(maxgoals):
    idx = 0
    for head in l1_heads():
        for body in l1_bodies(maxgoals):
            yield idx, head, body
            idx += 1


def l1_case(head, body):
    args = fix_anon(head)
    h = F('p', *args) if args else A('p')
    return Case([(SUPPORT, True, True), ([(h, body)], True, False)], [], l1_queries(len(args)), repeat=1,
                budget=True)


# ---------------------------------------------------------------- L2
def l2_clauses(maxgoals):
    heads = [F(p, a) for p in ('p', 'q') for a in (X, A('a'), A('b'), F('f', X))]
    goals = [call(F(p, a)) for p in ('p', 'q') for a in (X, Y, A('a'), A('b'), F('f', X))]
    bodies = [TRUE] + goals
    if maxgoals >= 2:
        bodies += [(',', g1, g2) for g1 in goals for g2 in goals]
    return [(h, b) for h in heads for b in bodies]


L2_QUERIES = [F('p', QA), F('p', A('a')), F('p', F('f', QA)), F('q', QA)]


def l2_cases(nclauses, maxgoals):
    cl = l2_clauses(maxgoals)
    idx = 0
    for prog in itertools.product(range(len(cl)), repeat=nclauses):
        yield idx, prog
        idx += 1


def l2_case(cl, prog):
    return Case([([cl[i] for i in prog], True, False)], [], L2_QUERIES, repeat=2, ref_steps=3000, ref_depth=40,
                budget=True)


# ---------------------------------------------------------------- L1b: goal order
# Every body of 2 or 3 goals over calls whose outcome depends on how far their arguments are bound
# when they are called (callees using \= or a cut, plain facts, explicit unifications): answers
# must be those of strict left-to-right execution.
L1B_SUPPORT = [(F('d', X), call(F('\\=', X, A('a')))),
               (F('c1', X), (',', call(F('=', X, A('a'))), ('!',))), (F('c1', ('v', ('_', 1))), None),
               (F('q', A('a')), None), (F('q', A('b')), None),
               (F('nq', X), ('\\+', call(F('q', X))))]
L1B_GOALS = [call(F('d', X)), call(F('c1', X)), call(F('q', X)), call(F('nq', X)), call(F('=', X, A('b'))), call(F('=', X, A('a'))),
             call(F('=', X, Y)), call(F('d', Y)), call(F('=', Y, A('c'))), call(F('\\=', X, Y))]


def l1b_cases(ngoals):
    idx = 0
    for gs in itertools.product(range(len(L1B_GOALS)), repeat=ngoals):
        yield idx, gs
        idx += 1


def l1b_case(gs):
    clause = (F('p', X, Y), conj(*[L1B_GOALS[g] for g in gs]))
    queries = [F('p', QA, QB), F('p', A('b'), QB), F('p', QA, A('a')), F('p', QA, QA)]
    return Case([(L1B_SUPPORT, True, True), ([clause], True, False)], [], queries, repeat=1, budget=True), clause


# ---------------------------------------------------------------- L2b: clause sequences of one predicate
# Every program of 3 clauses (T: 4) of ONE predicate r/2 over 6 head shapes x 4 bodies: what the
# compiler does for one clause (aliases of head arguments, fresh-variable declarations, loop
# variables) must not depend on the clauses compiled before it in the same function.
def l2b_clauses():
    Zv = V('Z')
    a = A('a')
    heads = [F('r', X, Y), F('r', Y, X), F('r', X, a), F('r', a, Y), F('r', F('f', X), Y), F('r', X, X)]
    bodies_ = [TRUE, call(F('e', X, Y)), (',', call(F('e', X, Zv)), call(F('e', Zv, Y))), call(F('e', Y, X))]
    return [(h, b) for h in heads for b in bodies_]


L2B_SUPPORT = [(F('e', A('a'), A('b')), None), (F('e', A('b'), A('c')), None), (F('e', F('f', A('a')), A('a')), None)]
L2B_QUERIES = [F('r', QA, QB), F('r', A('a'), QB), F('r', QA, A('nowhere')), F('r', F('f', QA), QB), F('r', QA, QA)]


def l2b_cases(ncl):
    cl = l2b_clauses()
    idx = 0
    for prog in itertools.product(range(len(cl)), repeat=ncl):
        yield idx, prog
        idx += 1


# ---------------------------------------------------------------- L3
def l3_cases():
    H, R, N, Z, Acc_ = V('H'), V('R'), V('N'), V('Z'), V('Ac')
    anon = lambda n: ('v', ('_', n))  # noqa: E731
    app = [(F('app', NIL, V('L'), V('L')), None),
           (F('app', L([H], T), V('L'), L([H], R)), call(F('app', T, V('L'), R)))]
    mem = [(F('mem', X, L([X], anon(1))), None), (F('mem', X, L([anon(1)], T)), call(F('mem', X, T)))]
    ln = [(F('len', NIL, A('z')), None), (F('len', L([anon(1)], T), F('s', N)), call(F('len', T, N)))]
    nat = [(F('nat', A('z')), None), (F('nat', F('s', N)), call(F('nat', N)))]
    rev = [(F('rev', NIL, Acc_, Acc_), None),
           (F('rev', L([H], T), Acc_, R), call(F('rev', T, L([H], Acc_), R)))]
    tin = [(F('in', X, F('t', anon(1), X, anon(2))), None),
           (F('in', X, F('t', V('Lt'), anon(1), anon(2))), call(F('in', X, V('Lt')))),
           (F('in', X, F('t', anon(1), anon(2), V('Rt'))), call(F('in', X, V('Rt'))))]
    a, b, c = A('a'), A('b'), A('c')
    lists = [NIL, L([a]), L([a, b]), L([a, b, c]), L([a, a]), L([QA]), L([QA, QB]), L([a], QA), L([QA], QB),
             L([a, QA]), QA]
    cases = []
    cases.append(('append', app, [F('app', x, y, z) for x in lists for y in [NIL, L([c]), QB, V('Cq')]
                                  for z in [NIL, L([a]), L([a, b]), L([a, b, c]), L([a, c]), V('Dq'), L([V('Dq')], V('Eq'))]]))
    cases.append(('member', mem, [F('mem', x, l) for x in [a, b, c, QA, F('f', QA)] for l in lists +
                                  [L([F('f', a), F('f', QB)]), L([a, b], V('Cq'))]]))
    cases.append(('len', ln, [F('len', l, n) for l in lists for n in [V('Nq'), A('z'), F('s', A('z')), F('s', F('s', A('z'))), F('s', V('Nq'))]]))
    cases.append(('nat', nat, [F('nat', n) for n in [V('Nq'), A('z'), F('s', A('z')), F('s', F('s', V('Nq'))), a]]))
    cases.append(('rev', rev, [F('rev', l, NIL, r) for l in lists for r in [V('Rq'), NIL, L([b, a]), L([a]), L([V('Rq')], V('Sq'))]]))
    t1 = F('t', A('nil'), C(1), A('nil'))
    t2 = F('t', t1, C(2), F('t', A('nil'), C(3), A('nil')))
    t3 = F('t', F('t', QA, C(1), A('nil')), QB, A('nil'))
    cases.append(('bintree', tin, [F('in', x, t) for x in [QA, C(1), C(3), C(4), V('Xq')] for t in [A('nil'), t1, t2, t3, V('Tq')]]))
    # path over every DAG on 3 nodes (edges only from a lower to a higher node in one of the
    # 6 orders => every labelled DAG on {a,b,c}), plus one cyclic graph compared on a prefix
    nodes = [a, b, c]
    seen = set()
    for order in itertools.permutations(range(3)):
        fw = [(order[i], order[j]) for i in range(3) for j in range(i + 1, 3)]
        for mask in range(1 << len(fw)):
            edges = tuple(sorted(e for bit, e in enumerate(fw) if mask >> bit & 1))
            if edges in seen:
                continue
            seen.add(edges)
            prog = [(F('edge', nodes[i], nodes[j]), None) for i, j in edges]
            prog += [(F('path', X, Y), call(F('edge', X, Y))),
                     (F('path', X, Y), (',', call(F('edge', X, V('Z'))), call(F('path', V('Z'), Y))))]
            qs = [F('path', s, t) for s in [QA, a, b, c] for t in [QB, a, c, QA]]
            cases.append(('path%s' % (list(edges),), prog, qs))
    cyc = [(F('edge', a, b), None), (F('edge', b, a), None),
           (F('path', X, Y), call(F('edge', X, Y))),
           (F('path', X, Y), (',', call(F('edge', X, V('Z'))), call(F('path', V('Z'), Y))))]
    cases.append(('path-cyclic', cyc, [F('path', a, QB), F('path', QA, QB)]))
    return cases


# ---------------------------------------------------------------- L4: variable names
# The compiler maps source variables to Python identifiers; answers must be invariant under a
# consistent renaming of the variables of a program.  The templates use the placeholders A, B and
# many anonymous variables (their numbering runs over the whole program); every injective
# assignment of (A, B) to names from NAME_MENU is compiled and compared with RefProlog, for which
# names are opaque.
NAME_MENU = ['X', 'Y', '_1', '_2', '_3', '_4', '_5', '_6', '_7', '_8', '_9', '_10', '_11', '_12', '_13', '_14', '_01',
             'X1', 'X2', 'L1', 'L2', 'Arg1', 'Arg2', 'V_X', 'V__1', 'V_x1', '_x1', '_X1', 'X_1', '__', '___', '_G1', '_G2',
             'Anon1', '_anon1', 'Tmp1', '_V1', 'V1', 'DoBreak', 'CutIf1', '_L1', 'True', 'ATOM_NIL', 'Yield']


def l4_templates():
    Av, Bv = V('A'), V('B')

    def an(n):
        return ('v', ('_', n))
    a, b, c = A('a'), A('b'), A('c')
    t = []
    t.append(('t1', [(F('t', an(1), Av, Av), None)], [F('t', a, b, b), F('t', QA, QB, V('Cq')), F('t', a, b, c)]))
    t.append(('s', [(F('e', a, b), None), (F('e', b, c), None), (F('e', c, a), None),
                    (F('s', Av), conj(call(F('e', an(1), Av)), call(F('e', Av, an(2)))))], [F('s', QA)]))
    t.append(('u', [(F('u', an(1), an(2), Av, Bv), call(F('=', Av, Bv)))], [F('u', C(1), C(2), QA, QB), F('u', QA, QA, a, QB)]))
    t.append(('w', [(F('q', a), None), (F('q', b), None), (F('r', a, C(1)), None), (F('r', C(2), b), None),
                    (F('w', Av, Bv), conj(call(F('q', an(1))), call(F('r', Av, an(2))), call(F('r', an(3), Bv))))], [F('w', QA, QB)]))
    t.append(('h', [(F('h', L([an(1)], Av), Av, an(2)), None), (F('h2', F('f', an(3), Av), Bv), call(F('=', Av, Bv)))],
              [F('h', L([a, b]), QA, QB), F('h2', F('f', C(1), C(2)), QA), F('h2', QA, QB)]))
    t.append(('k', [(F('q', a), None), (F('k', an(1), Av), call(F('q', Av))), (F('k', Av, an(2)), call(F('q', Av)))], [F('k', QA, QB)]))
    return t


def l4_programs():
    ts = l4_templates()
    progs = [(name, cl, qs) for name, cl, qs in ts]
    # all templates in one program: the anonymous variables get program-wide indices 1..13
    allc, allq = [], []
    seen = set()
    n = 0
    for name, cl, qs in ts:
        for h, b in cl:
            key = repr((h, b))
            if key in seen:
                continue
            seen.add(key)
            m = {}

            def ren(t_):
                if t_[0] == 'v' and isinstance(t_[1], tuple):
                    if t_[1] not in m:
                        m[t_[1]] = ('v', ('_', 100 + len(seen) * 10 + len(m)))
                    return m[t_[1]]
                if t_[0] == 'f':
                    return ('f', t_[1], tuple(ren(x) for x in t_[2]))
                return t_

            def renb(b_):
                if b_ is None:
                    return None
                if b_[0] == 'call':
                    return ('call', ren(b_[1]))
                if b_[0] in (',', ';', '->'):
                    return (b_[0], renb(b_[1]), renb(b_[2]))
                return b_
            allc.append((ren(h), renb(b)))
        allq += qs
    progs.append(('all', allc, allq))
    return progs


def rename_vars(clauses, na, nb):
    def ren(t_):
        if t_[0] == 'v' and t_[1] == 'A':
            return ('v', na)
        if t_[0] == 'v' and t_[1] == 'B':
            return ('v', nb)
        if t_[0] == 'f':
            return ('f', t_[1], tuple(ren(x) for x in t_[2]))
        return t_

    def renb(b_):
        if b_ is None:
            return None
        if b_[0] == 'call':
            return ('call', ren(b_[1]))
        if b_[0] in (',', ';', '->'):
            return (b_[0], renb(b_[1]), renb(b_[2]))
        return b_
    return [(ren(h), renb(b)) for h, b in clauses]


def l4_cases():
    idx = 0
    for name, cl, qs in l4_programs():
        for na in NAME_MENU:
            for nb in NAME_MENU:
                if na == nb:
                    continue
                yield idx, name, cl, qs, na, nb
                idx += 1


# ---------------------------------------------------------------- L5: simultaneous activations
# "Every clause activation works on fresh variables": two activations of the SAME clause alive at
# once (two goals of one body, a recursion, a clause used by caller and callee) over every term
# shape whose variables are anonymous, named-once, or mixed - in a head argument or in a body goal.
def l5_shapes():
    an = lambda n: ('v', ('_', n))  # noqa: E731
    return [an(1), F('f', an(1)), F('g', an(1), an(2)), L([an(1)], an(2)), L([an(1), an(2)]), F('f', F('g', an(1), A('k'))),
            F('g', X, an(1)), F('g', Y, Y), F('f', Y), L([Y], an(1)), F('g', A('k'), an(1))]


def l5_inst(shape, val):
    """the shape with every variable (anonymous or named) replaced by val"""
    if shape[0] == 'v':
        return val
    if shape[0] == 'f' and shape[1] == '.' and len(shape[2]) == 2 and shape[2][1][0] == 'v':
        return ('f', '.', (l5_inst(shape[2][0], val), L([val])))    # a list tail stays a list
    if shape[0] == 'f':
        return ('f', shape[1], tuple(l5_inst(x, val) for x in shape[2]))
    return shape


def l5_cases():
    a, b = A('a'), A('b')
    Tl = V('Tl')
    idx = 0
    for si, s in enumerate(l5_shapes()):
        ia, ib = l5_inst(s, a), l5_inst(s, b)
        pairs = [(QA, QB), (ia, ib), (ia, ia), (QA, QA), (ia, QB), (QA, ib)]
        progs = {
            'head-twice': [(F('h', s), None), (F('both', V('P'), V('Q')), (',', call(F('h', V('P'))), call(F('h', V('Q')))))],
            'body-twice': [(F('h', V('P')), call(F('=', V('P'), s))), (F('both', V('P'), V('Q')), (',', call(F('h', V('P'))), call(F('h', V('Q')))))],
            'recursion': [(F('all', NIL), None), (F('all', L([s], Tl)), call(F('all', Tl))),
                          (F('both', V('P'), V('Q')), call(F('all', L([V('P'), V('Q')]))))],
            'recursion-body': [(F('all', NIL), None), (F('all', L([V('E')], Tl)), (',', call(F('=', V('E'), s)), call(F('all', Tl)))),
                               (F('both', V('P'), V('Q')), call(F('all', L([V('P'), V('Q')]))))],
            'caller-and-callee': [(F('h', s, A('z')), None),
                                  (F('h', V('P'), F('s', V('N'))), (',', call(F('h', V('P'), V('N'))), call(F('h', V('Q2'), V('N'))))),
                                  (F('both', V('P'), V('Q')), (',', call(F('h', V('P'), F('s', A('z')))), call(F('h', V('Q'), F('s', A('z'))))))],
        }
        for name, prog in progs.items():
            yield idx, '%s:%d' % (name, si), prog, [F('both', p_, q_) for p_, q_ in pairs]
            idx += 1


# ---------------------------------------------------------------- L6: long bodies, wide predicates
# Sizes beyond the small-program bounds, in every way a variable can travel through a long clause:
# a pipeline path(In,Out) :- step(In,A1), ..., step(Ak,Out); a head variable used only by the LAST
# goal; a variable shared by the first and the last goal only - for every body length 1..19; and
# tables of N clauses for N around every power of two up to 130.
def l6_cases():
    idx = 0
    nodes = [A('n%d' % i) for i in range(21)]
    steps = [(F('step', nodes[i], nodes[i + 1]), None) for i in range(20)] + [(F('step', nodes[3], nodes[9]), None)]
    extra = [(F('tag', A('t1')), None), (F('tag', A('t2')), None)]
    for n in range(1, 20):
        vs = [V('In')] + [V('A%d' % i) for i in range(1, n)] + [V('Out')]
        pipeline = (F('path', V('In'), V('Out')), conj(*[call(F('step', vs[i], vs[i + 1])) for i in range(n)]))
        qs = [F('path', nodes[0], QA), F('path', QA, nodes[n]), F('path', nodes[0], nodes[n]), F('path', nodes[0], nodes[5]), F('path', QA, QB)]
        yield idx, 'pipeline-%d' % n, steps + [pipeline], qs
        idx += 1
        # Late only occurs in the head and in the last goal; First in the first and the last goal
        filler = [call(F('tag', V('F%d' % i))) for i in range(1, n)]
        late = (F('late', V('Late'), V('F1') if n > 1 else V('Late')), conj(*(filler + [call(F('tag', V('Late')))])))
        yield idx, 'late-head-variable-%d' % n, extra + [late], [F('late', QA, QB), F('late', A('t2'), QB), F('late', A('zz'), QB)]
        idx += 1
        if n >= 19:
            continue    # one more goal would exceed what the compiler accepts (20 nested blocks, C11)
        both = (F('both', V('R')), conj(*([call(F('step', V('S'), V('M')))] + filler + [call(F('step', V('M'), V('R')))])))
        yield idx, 'first-and-last-goal-share-%d' % n, steps + extra + [both], [F('both', nodes[2]), F('both', QA)] if n < 6 else [F('both', nodes[2])]
        idx += 1
    # discontiguous predicates: the clauses of p/1, q/1 and p/2 in every interleaving of 3..5 clauses, and
    # a recursive predicate whose base case stands apart from its recursive clause
    preds = [('p', 1), ('q', 1), ('p', 2)]
    for n in (3, 4, 5):
        for pat in itertools.product(range(3), repeat=n):
            if len(set(pat)) < 2 or all(pat[i] <= pat[i + 1] for i in range(n - 1)):
                continue    # only interleavings in which some predicate's clauses are NOT adjacent
            if not any(pat[i] == pat[j] and any(pat[m] != pat[i] for m in range(i + 1, j)) for i in range(n) for j in range(i + 2, n)):
                continue
            prog = []
            for i, pi in enumerate(pat):
                nm, ar = preds[pi]
                prog.append((F(nm, *([A('c%d' % i)] + [A('x')] * (ar - 1))), None))
            yield idx, 'discontiguous-%s' % ''.join(map(str, pat)), prog, [F('p', QA), F('q', QA), F('p', QA, QB)]
            idx += 1
    split = [(F('edge', A('a'), A('b')), None), (F('reach', X, X), None), (F('edge', A('b'), A('c')), None),
             (F('reach', X, Y), (',', call(F('edge', X, V('Z'))), call(F('reach', V('Z'), Y)))), (F('edge', A('c'), A('d')), None)]
    yield idx, 'discontiguous-recursive', split, [F('reach', A('a'), QA), F('edge', QA, QB), F('reach', QA, A('d'))]
    idx += 1
    # wide heads: N arguments, a constant in the LAST position resp. one variable in the first and the
    # last position
    for n in (2, 3, 19, 20, 21, 64, 127, 128, 129, 254, 255, 256, 257, 300):
        cs = [V('C%d' % i) for i in range(1, n)]
        rec = (F('rec', *(cs + [A('red')])), None)
        same = (F('same', *([V('K')] + [V('D%d' % i) for i in range(2, n)] + [V('K')])), None)
        atoms = [A('x%d' % i) for i in range(1, n)]
        qs = [F('rec', *(atoms + [QA])), F('rec', *(atoms + [A('blue')])), F('rec', *(atoms + [A('red')])),
              F('same', *(atoms + [QA])), F('same', *(atoms + [A('x1')])), F('same', *(atoms + [A('other')]))]
        yield idx, 'wide-head-%d' % n, [rec, same], qs
        idx += 1
    # heads with N constant arguments (each needs a unification) AND a variable that occurs twice among the direct
    # arguments, resp. once directly and once inside a structure
    for n in range(1, 16):
        cs = [A('c%d' % i) for i in range(1, n + 1)]
        mix = (F('mix', *([V('K')] + cs + [V('K')])), None)
        mix2 = (F('mixs', *([V('K'), F('f', V('K'))] + cs)), call(F('eqk', V('K'))))
        qs = [F('mix', *([QA] + cs + [QB])), F('mix', *([A('a')] + cs + [A('a')])), F('mix', *([A('a')] + cs + [A('b')])),
              F('mixs', *([QA, QB] + cs)), F('mixs', *([A('a'), F('f', A('b'))] + cs)), F('mixs', *([QA, F('f', A('a'))] + cs[:-1] + [QB]))]
        yield idx, 'mixed-head-%d' % n, [mix, mix2, (F('eqk', A('a')), None), (F('eqk', A('z')), None)], qs
        idx += 1
    for n in (1, 2, 3, 4, 5, 7, 8, 9, 15, 16, 17, 31, 32, 33, 34, 63, 64, 65, 66, 100, 128, 129, 130):
        table = [(F('tab', A('k%d' % i), A('v%d' % i)), None) for i in range(1, n + 1)] + [(F('tab', ('v', ('_', 1)), A('default')), None)]
        qs = [F('tab', A('k1'), QA), F('tab', A('k%d' % n), QA), F('tab', QA, A('v%d' % n)), F('tab', QA, A('default')), F('tab', A('nokey'), QA)]
        if n <= 34:
            qs.append(F('tab', QA, QB))
        yield idx, 'table-%d' % n, table, qs
        idx += 1



# ---------------------------------------------------------------- L9: chains of aliased variables
# Every body of 2 or 3 goals that alias X, Y, Z to each other explicitly (=) or through a callee with a repeated
# head variable h(V,V) that has a second clause binding differently, in both clause orders, and goals that bind
# the end of a chain: an alias made earlier must survive the undoing of one made later, at every answer.
Z = V('Z')
L9_SUPPORTS = [[(F('h', X, X), None), (F('h', A('b'), ('v', ('_', 1))), None), (F('s', A('a')), None), (F('s', A('c')), None)],
               [(F('h', A('b'), ('v', ('_', 1))), None), (F('h', X, X), None), (F('s', A('a')), None), (F('s', A('c')), None)]]
L9_GOALS = [call(F('=', X, Y)), call(F('=', Y, Z)), call(F('=', Z, X)), call(F('h', X, Y)), call(F('h', Y, Z)), call(F('h', Z, X)),
            call(F('s', X)), call(F('s', Y)), call(F('s', Z))]


def l9_cases():
    idx = 0
    for ng in (2, 3):
        for gs in itertools.product(range(len(L9_GOALS)), repeat=ng):
            for si in range(len(L9_SUPPORTS)):
                yield idx, gs, si
                idx += 1


def l9_case(gs, si):
    clause = (F('p', X, Y, Z), conj(*[L9_GOALS[g] for g in gs]))
    queries = [F('p', QA, QB, V('C')), F('p', QA, QA, V('C')), F('p', QA, QB, QA)]
    return Case([(L9_SUPPORTS[si], True, True), ([clause], True, False)], [], queries, repeat=1, budget=True), clause

# ---------------------------------------------------------------- plan / run
NSH = 48


# ---- L7: clauses next to each other --------------------------------------------------------------------
# What a clause means does not depend on the clauses around it: EVERY ordered triple of a 13-clause
# alphabet over two predicates forms a program.  All clauses use the SAME variable names (X, Y) in different
# roles - head argument, nested in a head argument, repeated, local to the body - and some clauses can be
# decided at compile time (a body that starts with fail, true before fail, X = Y before fail).
def l7_alphabet():
    box = lambda t: F('box', t)  # noqa: E731
    return [(F('s', X, Y), FAIL), (F('s', X, Y), conj(TRUE, FAIL, call(F('q', X)))), (F('pr', X, A('left')), None), (F('pr', A('right'), box(X)), None),
            (F('pr', X, X), None), (F('pr', A('a'), Y), conj(call(F('q', X)), call(F('=', Y, F('f', X))))), (F('s', X, Y), conj(call(F('q', X)), call(F('r', X, Y)))),
            (F('pr', F('f', X), F('g', X, Y)), None), (F('s', Y, X), call(F('q', Y))), (F('pr', X, Y), conj(call(F('=', X, Y)), FAIL)),
            (F('s', X, L([X], Y)), None), (F('pr', V('_'), X), call(F('q', X))), (F('s', X, box(Y)), conj(call(F('r', Y, X)), FAIL))]


L7_SUPPORT = [(F('q', A('a')), None), (F('q', A('b')), None), (F('r', A('a'), A('c')), None), (F('r', A('b'), A('d')), None)]


def l7_cases():
    al = l7_alphabet()
    idx = 0
    for tri in itertools.product(range(len(al)), repeat=3):
        yield idx, tri, [al[i] for i in tri]
        idx += 1


# ---- L8: how a conjunction is parenthesised does not matter ------------------------------------------------
# every way of grouping up to 4 goals out of {m(Vi), o(Vi), m(V1), true, fail} with parentheses: (A, B), C is
# A, (B, C) - in particular a fail or true inside a group is a goal like any other
def l8_cases():
    from .. import bodies
    idx = 0
    for n in (1, 2, 3):
        for t in bodies.trees(n, ['m', 'o', 's', 'true', 'fail']):
            if bodies.ops_used(t) - {','}:
                continue
            yield idx, t
            idx += 1


def plan(tier):
    q = tier == 'quick'
    sh = [('L1', k, NSH, 1 if q else 2) for k in range(NSH)]
    sh += [('L2', k, NSH, 2, 1) for k in range(NSH)]
    if not q:
        sh += [('L2', k, 4 * NSH, 3, 1) for k in range(4 * NSH)]
        sh += [('L2', k, 4 * NSH, 2, 2) for k in range(4 * NSH)]
    sh += [('L3', k, 8) for k in range(8)]
    sh += [('L4', k, NSH) for k in range(NSH)]
    sh += [('L5', k, 8) for k in range(8)]
    sh += [('L6', k, 16) for k in range(16)]
    sh += [('L7', k, 16) for k in range(16)]
    sh += [('L8', k, 16) for k in range(16)]
    sh += [('L9', k, 16) for k in range(16)]
    sh += [('L2b', k, NSH, 3) for k in range(NSH)]
    sh += [('L1b', k, 16, 2) for k in range(16)] + [('L1b', k, NSH, 3) for k in range(NSH)]
    if not q:
        sh += [('L1b', k, 4 * NSH, 4) for k in range(4 * NSH)]
    if not q:
        sh += [('L2b', k, 4 * NSH, 4) for k in range(4 * NSH)]
    return sh


def run_shard(spec):
    acc = Acc()
    if spec[0] == 'L1':
        _, k, n, maxgoals = spec
        for idx, head, body in l1_cases(maxgoals):
            if idx % n != k:
                continue
            case = l1_case(head, body)
            res = case.run()
            account(acc, ('L1', idx), case, res, key=show_clause(case.scripts[1][0][0]))
            if idx % 977 == 0 and res['status'] == 'ok':
                acc.sample({'layer': 'L1', 'clause': show_clause(case.scripts[1][0][0]),
                            'queries_compared': res['queries']}, limit=1)
    elif spec[0] == 'L2':
        _, k, n, ncl, maxgoals = spec
        cl = l2_clauses(maxgoals)
        for idx, prog in l2_cases(ncl, maxgoals):
            if idx % n != k:
                continue
            if maxgoals == 2 and all(cl[i][1][0] != ',' for i in prog):
                continue  # already covered by the one-goal enumeration
            case = l2_case(cl, prog)
            res = case.run()
            account(acc, ('L2', ncl, maxgoals, idx), case, res, key=case.describe()['scripts'][0]['text'])
            if idx % 5003 == 0 and res['status'] == 'ok' and res['nontrivial']:
                acc.sample({'layer': 'L2', 'program': case.describe()['scripts'][0]['text']}, limit=1)
    elif spec[0] == 'L1b':
        _, k, n, ng = spec
        for idx, gs in l1b_cases(ng):
            if idx % n != k:
                continue
            case, clause = l1b_case(gs)
            res = case.run()
            if res['status'] == 'violation':
                res['sig'] = 'goal-order:' + res['sig']
            account(acc, ('L1b', ng, idx), case, res, key=show_clause(clause))
            if idx % 499 == 0 and res['status'] == 'ok' and res['nontrivial']:
                acc.sample({'layer': 'L1b', 'clause': show_clause(clause)}, limit=1)
    elif spec[0] == 'L2b':
        _, k, n, ncl = spec
        cl = l2b_clauses()
        for idx, prog in l2b_cases(ncl):
            if idx % n != k:
                continue
            case = Case([(L2B_SUPPORT, True, True), ([cl[i] for i in prog], True, False)], [], L2B_QUERIES, repeat=1,
                        ref_steps=3000, ref_depth=40, budget=True)
            res = case.run()
            if res['status'] == 'violation':
                res['sig'] = 'clause-sequence:' + res['sig']
            account(acc, ('L2b', ncl, idx), case, res, key=case.describe()['scripts'][1]['text'])
            if idx % 3001 == 0 and res['status'] == 'ok' and res['nontrivial']:
                acc.sample({'layer': 'L2b', 'program': case.describe()['scripts'][1]['text']}, limit=1)
    elif spec[0] == 'L9':
        _, k, n = spec
        for idx, gs, si in l9_cases():
            if idx % n != k:
                continue
            case, clause = l9_case(gs, si)
            res = case.run()
            if res['status'] == 'violation':
                res['sig'] = 'alias-chain:' + res['sig']
            account(acc, ('L9', idx), case, res, key='L9|%d|%s' % (si, show_clause(clause)))
            if idx % 499 == 0 and res['status'] == 'ok' and res['nontrivial']:
                acc.sample({'layer': 'L9', 'clause': show_clause(clause)}, limit=1)
    elif spec[0] == 'L8':
        from .. import bodies
        from . import treecheck
        _, k, n = spec
        for idx, t in l8_cases():
            if idx % n != k:
                continue
            case = treecheck.tree_case(t, continuation=True)
            res = case.run()
            if res['status'] == 'violation':
                res['sig'] = 'grouping-of-a-conjunction:' + res['sig']
            account(acc, ('L8', idx), case, res, key='L8|%s' % bodies.show_tree(t))
    elif spec[0] == 'L7':
        _, k, n = spec
        qs = [F('s', QA, QB), F('pr', QA, QB), F('pr', A('right'), QB), F('s', QA, QA), F('pr', F('f', QA), QB)]
        for idx, tri, prog in l7_cases():
            if idx % n != k:
                continue
            case = Case([(L7_SUPPORT + prog, True, False)], [], qs, repeat=1, budget=True)
            res = case.run()
            if res['status'] == 'violation':
                res['sig'] = 'clauses-next-to-each-other:' + res['sig']
            account(acc, ('L7', idx), case, res, key='L7|%s' % (tri,))
    elif spec[0] == 'L6':
        _, k, n = spec
        for idx, name, prog, qs in l6_cases():
            if idx % n != k:
                continue
            case = Case([(prog, True, False)], [], qs, repeat=1, ref_steps=60000, ref_depth=60, budget=True)
            res = case.run()
            if res['status'] == 'violation':
                res['sig'] = 'long-or-wide:' + res['sig']
            account(acc, ('L6', idx), case, res, key=name)
    elif spec[0] == 'L5':
        _, k, n = spec
        for idx, name, prog, qs in l5_cases():
            if idx % n != k:
                continue
            case = Case([(prog, True, False)], [], qs, repeat=2, budget=True)
            res = case.run()
            if res['status'] == 'violation':
                res['sig'] = 'simultaneous-activations:' + res['sig']
            account(acc, ('L5', idx), case, res, key=name)
            if idx % 7 == 0 and res['status'] == 'ok':
                acc.sample({'layer': 'L5', 'program': case.describe()['scripts'][0]['text'][:300]}, limit=1)
    elif spec[0] == 'L4':
        _, k, n = spec
        for idx, name, cl, qs, na, nb in l4_cases():
            if idx % n != k:
                continue
            prog = rename_vars(cl, na, nb)
            case = Case([(prog, True, False)], [], qs, repeat=1, budget=True)
            res = case.run()
            if res['status'] == 'violation':
                res['sig'] = 'variable-names:' + res['sig']
            account(acc, ('L4', idx), case, res, key='%s|%s|%s' % (name, na, nb))
            if idx % 2003 == 0 and res['status'] == 'ok':
                acc.sample({'layer': 'L4', 'template': name, 'A_named': na, 'B_named': nb, 'program': case.describe()['scripts'][0]['text'][:300]}, limit=1)
    else:
        _, k, n = spec
        for idx, (name, prog, queries) in enumerate(l3_cases()):
            if idx % n != k:
                continue
            case = Case([(prog, True, False)], [], queries, repeat=2, ref_steps=4000, ref_depth=40, budget=True)
            res = case.run()
            account(acc, ('L3', idx), case, res, key=name)
            if res['status'] == 'ok':
                acc.sample({'layer': 'L3', 'idiom': name, 'queries_compared': res['queries']}, limit=1)
    return acc


def replay(case_json):
    case = Case.from_json(case_json)
    res = case.run()
    if res['status'] == 'violation':
        return [(res['sig'], res['detail'])]
    return []
