"""C09 - call/N, once/1, findall/3, = and \\= agree with their standard definitions."""
import itertools

from ..diff import Case, account
from ..runner import Acc
from ..terms import A, C, F, V, L, NIL, call, conj, TRUE, show_clause, show_term, Unprintable

ID = 'C09'
LEVEL = 'model_checking'
RULE = ('every program t(..) :- [Gv = Goal,] Builtin for Builtin in {call(G), call(G\',Extra..) for every split of '
        'the goal\'s arguments into carried and extra arguments, once(G), \\+ call(G), findall(T,G,L) for 6 templates, '
        'each optionally followed by a continuation goal} x goal in {atoms and compound goals with 0/1/2 solutions '
        'over compiled facts, a rule, dynamic facts, an undefined predicate} x goal written inline or arriving in a '
        'variable bound at run time [thorough: x one level of nesting of the builtins inside each other], each '
        'queried with unbound and bound arguments and compared answer by answer with RefProlog; plus X = Y and '
        'X \\= Y as goals for every pair of printable terms of depth <=1 over 2 variables. Unbound variables inside a '
        'findall bag are observed anonymously (whether they are shared is not fixed by the property). states = '
        'distinct per-program outcomes; transitions = next() calls; non-trivial = some query has an answer')
ASSUMPTIONS = ['RefProlog implements the standard definitions (findall copies instances, once = first solution, '
               'call/N appends arguments)',
               'calling an unbound variable or a number is unspecified and not enumerated']
X, Y, G, Lv = V('X'), V('Y'), V('G'), V('L')


def bounds(tier):
    return {'nesting': 0 if tier == 'quick' else 1}


SUPPORT = [
    (A('n1'), None), (A('n2'), None), (A('n2'), None),
    (F('o', C(1)), None), (F('m', C(1)), None), (F('m', C(2)), None),
    (F('r', C(1), A('a')), None), (F('r', C(2), A('b')), None), (F('r', C(2), A('c')), None),
    (F('u', V('X')), conj(call(F('m', V('X'))), call(F('\\=', V('X'), C(1))))),
    (F('w', V('X'), V('Y')), conj(call(F('m', V('X'))), call(F('=', V('Y'), F('g', V('Z')))), call(F('=', V('Z'), V('X'))))),
]
FACTS = [(F('d', C(1)), True), (F('d', C(2)), True)]
GOALS = [A('n0'), A('n1'), A('n2'), F('z1', X), F('o', X), F('m', X), F('d', X), F('u', X), F('r', X, Y), F('r', C(2), Y),
         F('m', C(2)), F('w', X, Y)]
TEMPLATES = [X, F('f', X, Y), A('a'), L([X], Y), Y, L([X, Y])]


def splits(goal):
    """all ways to write goal as call(G', extra...)"""
    if goal[0] == 'a':
        return [(goal, ())]
    name, args = goal[1], goal[2]
    out = []
    for i in range(len(args), -1, -1):
        carried, extra = args[:i], args[i:]
        if len(extra) > 2:
            continue
        g = ('f', name, tuple(carried)) if carried else ('a', name)
        out.append((g, tuple(extra)))
    return out


def builtin_goals(goal, nesting):
    """-> list of (tag, body builder(goalterm)->body, uses_L)"""
    forms = []
    for g2, extra in splits(goal):
        forms.append(('call/%d' % (1 + len(extra)), g2, lambda g, e=extra: call(F('call', g, *e)), False))
    forms.append(('once', goal, lambda g: call(F('once', g)), False))
    forms.append(('not-call', goal, lambda g: ('\\+', call(F('call', g))), False))
    for ti, t in enumerate(TEMPLATES):
        forms.append(('findall-T%d' % ti, goal, lambda g, t=t: call(F('findall', t, g, Lv)), True))
    if nesting:
        forms.append(('once(call)', goal, lambda g: call(F('once', F('call', g))), False))
        forms.append(('call(once)', goal, lambda g: call(F('call', A('once'), g)), False))
        forms.append(('call(call)', goal, lambda g: call(F('call', F('call', g))), False))
        forms.append(('findall(once)', goal, lambda g: call(F('findall', F('f', X, Y), F('once', g), Lv)), True))
        forms.append(('once(findall)', goal, lambda g: call(F('once', F('findall', X, g, Lv))), True))
        forms.append(('findall(findall)', goal,
                      lambda g: call(F('findall', F('p', X, V('L2')), F('findall', Y, g, V('L2')), Lv)), True))
        forms.append(('call(findall,..)', goal, lambda g: call(F('call', F('findall', X, g), Lv)), True))
        forms.append(('findall(call/2)', goal, lambda g: call(F('findall', X, F('call', g), Lv)), True))
    return forms


def programs(nesting):
    idx = 0
    for goal in GOALS:
        for tag, g2, mk, usesL in builtin_goals(goal, nesting):
            for via_var in (False, True):
                # a continuation after findall must not bind a variable that the goal left
                # unbound inside an instance: whether instances share such variables with the
                # caller is not fixed by the property (see DESIGN C09), so it binds W only
                for cont in ((None, 'w') if usesL else (None, 'm', 'eq')):
                    yield idx, goal, tag, g2, mk, usesL, via_var, cont
                    idx += 1


def make_case(goal, tag, g2, mk, usesL, via_var, cont):
    if via_var:
        body = conj(call(F('=', G, g2)), mk(G))
    else:
        body = mk(g2)
    if cont == 'm':
        body = conj(body, call(F('m', X)))
    elif cont == 'eq':
        body = conj(body, call(F('=', Y, X)))
    elif cont == 'w':
        body = conj(body, call(F('m', V('W'))))
    hv = [X, Y] + ([Lv] if usesL else [])
    clause = (F('t', *hv), body)
    qa, qb, ql = V('A'), V('B'), V('Lq')
    tail = [ql] if usesL else []
    queries = [F('t', qa, qb, *tail), F('t', C(2), qb, *tail), F('t', qa, A('c'), *tail), F('t', qa, qa, *tail)]
    if usesL:
        queries.append(F('t', qa, qb, NIL))
        queries.append(F('t', qa, qb, L([V('E1')], V('E2'))))
    return Case([(SUPPORT, True, True), ([clause], True, False)], FACTS, queries, repeat=1,
                anon=('Lq', 'E1', 'E2')), clause


# ---- = and \= as goals
def eq_terms():
    base = [X, Y, A('a'), A('b'), NIL, C(1)]
    d1 = list(base)
    d1 += [F('f', t) for t in base]
    d1 += [F('f', t, u) for t in base for u in base]
    d1 += [F('g', t) for t in base]
    d1 += [L([t]) for t in base] + [L([t], v) for t in base for v in (X, Y)] + [L([t, u]) for t in base[:4] for u in base[:4]]
    return d1


def eq_programs():
    ts = eq_terms()
    idx = 0
    for op in ('=', '\\='):
        for t1 in ts:
            for t2 in ts:
                yield idx, op, t1, t2
                idx += 1


def eq_case(op, t1, t2):
    clause = (F('e', X, Y), conj(call(F(op, t1, t2)), call(F('m', V('W')))))
    qa, qb = V('A'), V('B')
    queries = [F('e', qa, qb), F('e', A('a'), qb), F('e', qa, qa), F('e', F('f', qb), qb), F('e', C(1), NIL)]
    return Case([(SUPPORT, True, True), ([clause], True, False)], [], queries, repeat=1), clause


NSH = 32


def plan(tier):
    nesting = 0 if tier == 'quick' else 1
    return [('b', k, NSH, nesting) for k in range(NSH)] + [('e', k, NSH) for k in range(NSH)]


def run_shard(spec):
    acc = Acc()
    if spec[0] == 'b':
        _, k, n, nesting = spec
        for idx, goal, tag, g2, mk, usesL, via_var, cont in programs(nesting):
            if idx % n != k:
                continue
            case, clause = make_case(goal, tag, g2, mk, usesL, via_var, cont)
            res = case.run()
            if res['status'] == 'violation':
                res['sig'] = tag.split('-')[0] + ':' + res['sig']
            account(acc, ('b', idx), case, res, key=show_clause(clause))
            if res['status'] == 'ok' and res['nontrivial'] and idx % 211 == 0:
                acc.sample({'clause': show_clause(clause), 'queries_compared': res['queries']}, limit=1)
    else:
        _, k, n = spec
        for idx, op, t1, t2 in eq_programs():
            if idx % n != k:
                continue
            case, clause = eq_case(op, t1, t2)
            res = case.run()
            if res['status'] == 'violation':
                res['sig'] = op + ':' + res['sig']
            account(acc, ('e', idx), case, res, key=show_clause(clause))
            if res['status'] == 'ok' and res['nontrivial'] and idx % 1999 == 0:
                acc.sample({'clause': show_clause(clause), 'queries_compared': res['queries']}, limit=1)
    return acc


def replay(case_json):
    case = Case.from_json(case_json)
    res = case.run()
    if res['status'] == 'violation':
        return [(res['sig'], res['detail'])]
    return []
