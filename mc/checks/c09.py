"""C09 - call/N, once/1, findall/3, = and \\= agree with their standard definitions."""
import itertools

from ..diff import Case, account
from ..runner import Acc
from ..terms import A, C, F, V, L, NIL, call, conj, TRUE, FAIL, show_clause, show_term, Unprintable

ID = 'C09'
LEVEL = 'model_checking'
RULE = ('(each of call/1, once/1, findall/3 also as a direct operand of every control construct: left, right and middle of a disjunction, condition with and without else, then-branch, else-branch, under negation) (thorough: also EVERY tower of 2 and of 3 wrappers out of call/1, once/1, call(once,.), call(call,.), findall(f(X,Y),.,Bag) around each goal) every program t(..) :- [Gv = Goal,] Builtin for Builtin in {call(G), call(G\',Extra..) for every split of '
        'the goal\'s arguments into carried and extra arguments (<= 2 extra; for the 12- and 6-argument predicates every split, i.e. call/1 .. call/13; and call(call(G,A..),B..) with extra arguments at both levels for every split), once(G), \\+ call(G), findall(T,G,L) for 6 templates given in place and through a variable bound before, '
        'each optionally followed by a continuation goal or used twice in a row on the same goal term} x goal in {atoms and compound goals with 0/1/2 solutions '
        'over compiled facts, a rule, dynamic facts, a predicate with both compiled clauses and a dynamic fact, an undefined predicate} x goal written inline, arriving in a '
        'variable bound at run time, or through a chain of two variables aliased before the goal is bound [thorough: x one level of nesting of the builtins inside each other], each '
        'queried with unbound and bound arguments (on a new engine and on an engine that was used and cleared before the program is loaded) and compared answer by answer with RefProlog; plus X = Y, '
        'X \\= Y and their negations \\+ X = Y, \\+ X \\= Y as goals for every pair of printable terms of depth <=1 over 2 variables. Through the Python API the SAME goal term objects are passed to call/N, once/1 and findall/3 three times in a row. Unbound variables inside a '
        'findall bag are observed anonymously (whether they are shared is not fixed by the property). states = '
        'distinct per-program outcomes; transitions = next() calls; non-trivial = some query has an answer')
ASSUMPTIONS = ['RefProlog implements the standard definitions (findall copies instances, once = first solution, '
               'call/N appends arguments)',
               'calling an unbound variable or a number is unspecified and not enumerated']
X, Y, G, Lv = V('X'), V('Y'), V('G'), V('L')


def bounds(tier):
    return {'nesting': 0 if tier == 'quick' else 2, 'towers_of_wrappers': 0 if tier == 'quick' else 3}


SUPPORT = [
    (A('n1'), None), (A('n2'), None), (A('n2'), None),
    (F('o', C(1)), None), (F('m', C(1)), None), (F('m', C(2)), None),
    (F('r', C(1), A('a')), None), (F('r', C(2), A('b')), None), (F('r', C(2), A('c')), None),
    (F('u', V('X')), conj(call(F('m', V('X'))), call(F('\\=', V('X'), C(1))))),
    (F('w', V('X'), V('Y')), conj(call(F('m', V('X'))), call(F('=', V('Y'), F('g', V('Z')))), call(F('=', V('Z'), V('X'))))),
]
# predicates with many arguments: call/N for every N up to 13
WIDE = [F('wd', *([C(i) for i in range(1, 11)] + [X, Y])), F('wd6', *([C(i) for i in range(1, 5)] + [X, Y]))]
SUPPORT += [
    (F('wd', *([C(i) for i in range(1, 11)] + [C(1), A('a')])), None),
    (F('wd', *([C(i) for i in range(1, 11)] + [C(2), A('b')])), None),
    (F('wd', *([C(0)] * 12)), None),
    (F('wd6', *([C(i) for i in range(1, 5)] + [C(1), A('a')])), None),
    (F('wd6', *([C(i) for i in range(1, 5)] + [C(2), A('c')])), None),
]
FACTS = [(F('d', C(1)), True), (F('d', C(2)), True),
         (F('r', C(0), A('z')), True),      # r/2 has compiled clauses AND a dynamic fact (facts come first)
         # predicates named like operators / module qualification: goals like any others
         (F(':', A('colour'), C(1)), True), (F(':', A('colour'), C(2)), True), (F("-", C(1)), True)]
GOALS = [A('n0'), A('n1'), A('n2'), F('z1', X), F('o', X), F('m', X), F('d', X), F('u', X), F('r', X, Y), F('r', C(2), Y),
         F('m', C(2)), F('w', X, Y), F(':', A('colour'), X), F('-', X)]
TEMPLATES = [X, F('f', X, Y), A('a'), L([X], Y), Y, L([X, Y])]


def splits(goal, max_extra=2):
    """all ways to write goal as call(G', extra...)"""
    if goal[0] == 'a':
        return [(goal, ())]
    name, args = goal[1], goal[2]
    out = []
    for i in range(len(args), -1, -1):
        carried, extra = args[:i], args[i:]
        if len(extra) > max_extra:
            continue
        g = ('f', name, tuple(carried)) if carried else ('a', name)
        out.append((g, tuple(extra)))
    return out


def builtin_goals(goal, nesting):
    """-> list of (tag, body builder(goalterm)->body, uses_L)"""
    forms = []
    for g2, extra in splits(goal):
        forms.append(('call/%d' % (1 + len(extra)), g2, lambda g, e=extra: call(F('call', g, *e)), False))
    forms.append(('once', goal, lambda g: call(F('once', g)), False))
    forms.append(('not-call', goal, lambda g: ('\\+', call(F('call', g))), False))
    for ti, t in enumerate(TEMPLATES):
        forms.append(('findall-T%d' % ti, goal, lambda g, t=t: call(F('findall', t, g, Lv)), True))
        # the template reaches findall in a VARIABLE that was bound to it before (the instances are instances of
        # what the variable stands for at each answer)
        forms.append(('findall-template-in-variable-T%d' % ti, goal, lambda g, t=t: conj(call(F('=', V('Tv'), t)), call(F('findall', V('Tv'), g, Lv))), True))
    if nesting:
        forms.append(('once(call)', goal, lambda g: call(F('once', F('call', g))), False))
        forms.append(('call(once)', goal, lambda g: call(F('call', A('once'), g)), False))
        forms.append(('call(call)', goal, lambda g: call(F('call', F('call', g))), False))
        forms.append(('findall(once)', goal, lambda g: call(F('findall', F('f', X, Y), F('once', g), Lv)), True))
        forms.append(('once(findall)', goal, lambda g: call(F('once', F('findall', X, g, Lv))), True))
        forms.append(('findall(findall)', goal,
                      lambda g: call(F('findall', F('p', X, V('L2')), F('findall', Y, g, V('L2')), Lv)), True))
        forms.append(('call(findall,..)', goal, lambda g: call(F('call', F('findall', X, g), Lv)), True))
        forms.append(('findall(call/2)', goal, lambda g: call(F('findall', X, F('call', g), Lv)), True))
    # the builtin goal as a DIRECT operand of each control construct (a compiler that treats a builtin
    # specially must still treat it as ONE goal there): left / right of ;, condition, then- and else-branch, \\+
    for btag, bmk, uses in (('call', lambda g: call(F('call', g)), False), ('once', lambda g: call(F('once', g)), False),
                            ('findall', lambda g: call(F('findall', X, g, Lv)), True)):
        # next to findall the other goals bind W, not X: whether the instances in the bag share unbound
        # variables with the caller is not fixed by the property (DESIGN C09)
        mx = call(F('m', V('W'))) if uses else call(F('m', X))
        for ctag, ctl in CONTROL_CONTEXTS:
            forms.append(('%s-as-%s' % (btag, ctag), goal, (lambda g, bm=bmk, ct=ctl, m=mx: ct(bm(g), m)), uses))
    # towers: EVERY composition of 2 (nesting >= 1) and 3 (nesting >= 2) wrappers out of call/1, once/1,
    # call(once, .), call(call, .), findall(f(X,Y), ., Bag) around the goal; the bag of an inner findall is
    # a local variable, the bag of the outermost one is the head's L
    for depth in range(2, 2 + min(nesting, 2)):
        for tower in itertools.product(range(len(WRAPPERS)), repeat=depth):
            uses = WRAPPERS[tower[0]][0] == 'findall'
            forms.append(('tower-' + '-'.join(WRAPPERS[w][0] for w in tower), goal, (lambda g, tw=tower: call(build_tower(tw, g))), uses))
    return forms


CONTROL_CONTEXTS = [('disj-left', lambda b, m: (';', b, m)), ('disj-right', lambda b, m: (';', m, b)), ('disj3-middle', lambda b, m: (';', m, (';', b, m))),
                    ('cond', lambda b, m: (';', ('->', b, TRUE), m)), ('cond-no-else', lambda b, m: ('->', b, m)), ('then', lambda b, m: (';', ('->', m, b), TRUE)),
                    ('else', lambda b, m: (';', ('->', FAIL, TRUE), b)), ('negated', lambda b, m: ('\\+', b)), ('conj-in-disj-left', lambda b, m: (';', (',', b, m), m))]
WRAPPERS = [('call', lambda g, lvl: F('call', g)), ('once', lambda g, lvl: F('once', g)), ('call(once)', lambda g, lvl: F('call', A('once'), g)),
            ('call(call)', lambda g, lvl: F('call', A('call'), g)),
            ('findall', lambda g, lvl: F('findall', F('f', X, Y), g, Lv if lvl == 0 else V('Bag%d' % lvl)))]


def build_tower(tower, g):
    for lvl in range(len(tower) - 1, -1, -1):
        g = WRAPPERS[tower[lvl]][1](g, lvl)
    return g


def programs(nesting):
    idx = 0
    for goal in GOALS:
        for tag, g2, mk, usesL in builtin_goals(goal, nesting):
            for via_var in (False, True, 'chain'):
                # a continuation after findall must not bind a variable that the goal left
                # unbound inside an instance: whether instances share such variables with the
                # caller is not fixed by the property (see DESIGN C09), so it binds W only
                for cont in ((None, 'w') if usesL else (None, 'm', 'eq')):
                    yield idx, goal, tag, g2, mk, usesL, via_var, cont
                    idx += 1
                # the same goal term used by the builtin twice in a row (a meta-call must not
                # consume or alter the goal it is given)
                yield idx, goal, tag, g2, mk, usesL, via_var, 'twice'
                idx += 1
    # call/N whose goal is itself a call/N term, extra arguments at BOTH levels: call(call(G,A..),B..)
    # runs G with A.. then B.. appended
    for goal in [F('r', X, Y), F('w', X, Y), WIDE[1]]:
        args = goal[2]
        for i in range(0, len(args)):
            for j in range(i + 1, len(args) + 1):
                if j == len(args) and i == 0 and len(args) > 2:
                    pass
                inner_carried, inner_extra, outer_extra = args[:i], args[i:j], args[j:]
                if not inner_extra or not outer_extra:
                    continue
                g0 = ('f', goal[1], tuple(inner_carried)) if inner_carried else ('a', goal[1])
                g2 = F('call', g0, *inner_extra)
                for via_var in (False, True):
                    yield idx, goal, 'call(call/%d)/%d' % (1 + len(inner_extra), 1 + len(outer_extra)), g2, (lambda g, e=outer_extra: call(F('call', g, *e))), False, via_var, None
                    idx += 1
    for goal in WIDE:
        for g2, extra in splits(goal, 99):
            for via_var in (False, True):
                yield idx, goal, 'call/%d' % (1 + len(extra)), g2, (lambda g, e=extra: call(F('call', g, *e))), False, via_var, None
                idx += 1


def make_case(goal, tag, g2, mk, usesL, via_var, cont):
    if via_var == 'chain':
        # the goal reaches the builtin through a chain of variable bindings made outer-first:
        # G is aliased to the still unbound H before H gets the goal
        H = V('H')
        pre = [call(F('=', G, H)), call(F('=', H, g2))]
        body = conj(*(pre + [mk(G), mk(G)])) if cont == 'twice' else conj(*(pre + [mk(G)]))
    elif via_var:
        body = conj(call(F('=', G, g2)), mk(G), mk(G)) if cont == 'twice' else conj(call(F('=', G, g2)), mk(G))
    else:
        body = conj(mk(g2), mk(g2)) if cont == 'twice' else mk(g2)
    if cont == 'm':
        body = conj(body, call(F('m', X)))
    elif cont == 'eq':
        body = conj(body, call(F('=', Y, X)))
    elif cont == 'w':
        body = conj(body, call(F('m', V('W'))))
    hv = [X, Y] + ([Lv] if usesL else [])
    clause = (F('t', *hv), body)
    qa, qb, ql = V('A'), V('B'), V('Lq')
    tail = [ql] if usesL else []
    queries = [F('t', qa, qb, *tail), F('t', C(2), qb, *tail), F('t', qa, A('c'), *tail), F('t', qa, qa, *tail)]
    if usesL:
        queries.append(F('t', qa, qb, NIL))
        queries.append(F('t', qa, qb, L([V('E1')], V('E2'))))
    return Case([(SUPPORT, True, True), ([clause], True, False)], FACTS, queries, repeat=1,
                anon=('Lq', 'E1', 'E2')), clause


# ---- = and \= as goals
def eq_terms():
    base = [X, Y, A('a'), A('b'), NIL, C(1)]
    d1 = list(base)
    d1 += [F('f', t) for t in base]
    d1 += [F('f', t, u) for t in base for u in base]
    d1 += [F('g', t) for t in base]
    d1 += [L([t]) for t in base] + [L([t], v) for t in base for v in (X, Y)] + [L([t, u]) for t in base[:4] for u in base[:4]]
    # compounds named like the builtins, used as DATA (a term is a term whatever its name)
    d1 += [F('call', A('a'), X), F('call', F('f', X)), F('once', A('a')), F('findall', X, A('a'), Y), F('a', X)]
    return d1


def eq_programs():
    ts = eq_terms()
    idx = 0
    for op in ('=', '\\=', 'not=', 'not\\='):
        for t1 in ts:
            for t2 in ts:
                yield idx, op, t1, t2
                idx += 1


def eq_case(op, t1, t2):
    if op.startswith('not'):
        # the negated forms: \\+ T1 = T2 and \\+ T1 \\= T2 bind nothing
        clause = (F('e', X, Y), conj(('\\+', call(F(op[3:], t1, t2))), call(F('m', V('W')))))
    else:
        clause = (F('e', X, Y), conj(call(F(op, t1, t2)), call(F('m', V('W')))))
    qa, qb = V('A'), V('B')
    queries = [F('e', qa, qb), F('e', A('a'), qb), F('e', qa, qa), F('e', F('f', qb), qb), F('e', C(1), NIL)]
    return Case([(SUPPORT, True, True), ([clause], True, False)], [], queries, repeat=1), clause


# ---- the same goal TERM OBJECT passed to a builtin several times through the Python API
def api_cases():
    idx = 0
    for goal in GOALS + [F('r', C(2), A('b')), F('m', C(1)), F('w', C(1), Y)]:
        for g2, extra in splits(goal):
            yield idx, 'call', goal, g2, extra
            idx += 1
        yield idx, 'once', goal, goal, ()
        idx += 1
        yield idx, 'findall', goal, goal, ()
        idx += 1


def run_api_case(kind, goal, g2, extra):
    from .. import impl
    from ..refprolog import Ref, canon
    from ..diff import compile_cached, anonymize
    from ..terms import show_program, term_vars
    yp = impl.new_engine(compile_cached(show_program(SUPPORT)))
    ref = Ref()
    ref.consult(SUPPORT)
    for t, ap in FACTS:
        yp.assert_fact(yp.atom(t[1]), [impl.to_engine(yp, x, {}) for x in t[2]])
        ref.assert_fact(t)
    vm = {}
    gterm = impl.to_engine(yp, g2, vm)
    extras = [impl.to_engine(yp, x, vm) for x in extra]
    if kind == 'findall':
        tmpl = impl.to_engine(yp, F('f', X, Y), vm)
        bag = impl.to_engine(yp, Lv, vm)
        name, args, rgoal = 'findall', [tmpl, gterm, bag], F('findall', F('f', X, Y), g2, Lv)
    elif kind == 'once':
        name, args, rgoal = 'once', [gterm], F('once', g2)
    else:
        name, args, rgoal = 'call', [gterm] + extras, F('call', g2, *extra)
    obsv = [('v', k) for k in term_vars(rgoal)]
    obs = [impl.to_engine(yp, v, vm) for v in obsv]
    exp, st = ref.query(rgoal, obsv)
    anon_ix = [i for i, v in enumerate(obsv) if v == Lv]
    exp = [anonymize(a, anon_ix) for a in exp]
    for rnd in range(3):
        got = []
        try:
            for _ in yp.query(name, args):
                got.append(anonymize(impl.observe(obs), anon_ix))
                if len(got) > len(exp) + 1:
                    break
        except Exception as e:  # noqa: BLE001
            return ('violation', 'api-reuse:raises:' + impl.exc_sig(e), 'query(%r, ...) with the goal term %s, use %d of the same term objects, raised %r' % (name, show_term(g2), rnd + 1, e))
        if got != exp:
            return ('violation', 'api-reuse:answers-differ',
                    'yp.query(%r, [...]) on the goal term %s built once through the API: use %d of the SAME term objects gives %r, expected %r' % (name, show_term(rgoal), rnd + 1, got, exp))
    return ('ok', tuple(exp))


NSH = 32


def plan(tier):
    nesting = 0 if tier == 'quick' else 2
    return ([('b', k, NSH, nesting) for k in range(NSH)] + [('e', k, NSH) for k in range(NSH)] + [('a', k, 4) for k in range(4)]
            + [('cleared', 'b', k, NSH, 0) for k in range(NSH)] + [('cleared', 'e', k, NSH) for k in range(NSH)])


def run_shard(spec):
    if spec[0] == 'cleared':
        # the same programs on an engine that was used and cleared before the program is loaded
        from .. import diff
        diff.ENGINE['mode'] = 'cleared'
        try:
            acc = run_shard(spec[1:])
        finally:
            diff.ENGINE['mode'] = 'fresh'
        for sig in list(acc.groups):
            acc.groups['cleared-engine:' + sig] = acc.groups.pop(sig)
        return acc
    acc = Acc()
    if spec[0] == 'b':
        _, k, n, nesting = spec
        for idx, goal, tag, g2, mk, usesL, via_var, cont in programs(nesting):
            if idx % n != k:
                continue
            case, clause = make_case(goal, tag, g2, mk, usesL, via_var, cont)
            res = case.run()
            if res['status'] == 'violation':
                res['sig'] = tag.split('-')[0] + ':' + res['sig']
            account(acc, ('b', idx), case, res, key=show_clause(clause))
            if res['status'] == 'ok' and res['nontrivial'] and idx % 211 == 0:
                acc.sample({'clause': show_clause(clause), 'queries_compared': res['queries']}, limit=1)
    elif spec[0] == 'a':
        _, k, n = spec
        from ..refprolog import Cyclic, Unspecified
        for idx, kind, goal, g2, extra in api_cases():
            if idx % n != k:
                continue
            acc.n['evaluations'] += 1
            try:
                r = run_api_case(kind, goal, g2, extra)
            except (Cyclic, Unspecified):
                acc.skipped['unspecified'] += 1
                continue
            acc.n['validated'] += 1
            if r[0] == 'violation':
                acc.violation(r[1], ('a', idx), {'api': [kind, list(_jj(goal)), list(_jj(g2)), [list(_jj(x)) for x in extra]]}, r[2], key='%s|%s|%s' % (kind, show_term(g2), len(extra)))
                continue
            acc.n['transitions'] += 3 * (len(r[1]) + 1)
            if r[1]:
                acc.n['nontrivial'] += 1
            acc.outcome(('api', kind, r[1]))
    else:
        _, k, n = spec
        from .. import diff as _diff
        for idx, op, t1, t2 in eq_programs():
            if idx % n != k:
                continue
            if op.startswith('not') and _diff.ENGINE['mode'] == 'cleared':
                continue
            case, clause = eq_case(op, t1, t2)
            res = case.run()
            if res['status'] == 'violation':
                res['sig'] = op + ':' + res['sig']
            account(acc, ('e', idx), case, res, key=show_clause(clause))
            if res['status'] == 'ok' and res['nontrivial'] and idx % 1999 == 0:
                acc.sample({'clause': show_clause(clause), 'queries_compared': res['queries']}, limit=1)
    return acc


def _jj(t):
    from ..diff import _j
    return [_j(t)]


def replay(case_json):
    if 'api' in case_json:
        from ..diff import _t
        kind, goal, g2, extra = case_json['api']
        r = run_api_case(kind, _t(goal[0]), _t(g2[0]), tuple(_t(x[0]) for x in extra))
        return [(r[1], r[2])] if r[0] == 'violation' else []
    case = Case.from_json(case_json)
    res = case.run()
    if res['status'] == 'violation':
        return [(res['sig'], res['detail'])]
    return []
