"""C06 - disjunction, if-then-else, negation; operator precedence."""
import itertools

from .. import bodies
from ..bodies import LEAF_PROGRAM
from ..diff import Case, account
from ..runner import Acc
from ..terms import F, A, V, call, TRUE, FAIL
from . import treecheck

ID = 'C06'
LEVEL = 'model_checking'
RULE = ('(x) every body with 4 operators out of ; -> \\+ (no conjunction) over the leaves {o(Vi), z}; (ix) every body with 3 operators over the leaves {m(Vi), m(V1)} (thorough: plus o) in which the same goal m(V1) stands at several places; (viii) every body with 3 operators over the leaves {true, m(Vi)} (thorough: {true, m, z}) that contains true and one of ; -> \\+; ' '(i) every clause body tree with <= N operators from , ; -> \\+ over the 8 leaves {true fail ! z '
        'o(Vi) m(Vi) m(V1) k(Vi)} that uses at least one of ; -> \\+ (cuts only in transparent positions), in '
        'the context of C05, with and without a continuation goal m(W) after the construct; (ii) every '
        'unparenthesised body l1 op1 l2 .. opk lk+1 (k <= K, ops from , ; ->, every leaf from {z o m true} '
        'optionally prefixed by \\+) compiled as written and compared with RefProlog run on the tree obtained by '
        'an independent operator-precedence reading; (iii) deep spines: every tree with <= D operators over the leaves {o m z ! and q = a test on the variable of a two-solution goal in front of the body, so that the construct is entered twice with different outcomes} placed in ONE position (condition, then, else, either alternative, negated goal, either conjunct) of a construct whose other positions are single leaves, with a continuation goal; every tree with exactly 3 operators over two of the leaves {o z !} in each TAIL position (then, else, right alternative, right conjunct); (iv) body-local variables: every tree <= 2 [thorough 3] operators whose leaves bind variables that do not occur in the head (X = a, Y = b, m(X), true, fail), exposed by a continuation R = r(X,Y). states = distinct answer sequences; transitions = '
        '(vii) two constructs in one body: a disjunction / if-then-else with two alternatives for V1 followed by a second construct whose condition, first alternative or negated goal is a conjunction containing the test t2(V1) (480 bodies). (vi) every body with <= 2 operators containing the leaf t2(V1), a test on the variable of the first goal that fails for its first solution and succeeds for the second (whether a construct committed to the first solution of its condition shows in the answers). (v) long branches: a conjunction of 1..10 goals as then-branch, else-branch or continuation of 9 constructs whose condition has alternatives of its own (disjunction, if-then-else or negation inside the condition). '
        'next() calls on the real engine; non-trivial = at least one answer')
ASSUMPTIONS = ['RefProlog implements the standard semantics of ; -> \\+ and cut',
               'cuts in the condition of -> or under \\+ are outside the property and skipped',
               'precedence reading: \\+ tightest, then , then -> then ; all right-associative']


def bounds(tier):
    return {'max_operators': 2 if tier == 'quick' else 3,
            'precedence_max_ops': 2 if tier == 'quick' else 3, 'deep_spine_operators': 2 if tier == 'quick' else 3,
            'leaves': bodies.LEAVES, 'precedence_leaves': PLEAVES}


PLEAVES = ['z', 'o', 'm', 'true']


def plan(tier):
    maxops = 2 if tier == 'quick' else 3
    sh = [('trees', k, treecheck.NSHARDS, maxops, tier) for k in range(treecheck.NSHARDS)]
    kmax = 2 if tier == 'quick' else 3
    sh += [('prec', k, 16, kmax, tier) for k in range(16)]
    sh += [('spine', k, 64, 2, tier) for k in range(64)]
    sh += [('tails', k, 64) for k in range(64)]
    sh += [('locals', k, 16, 2 if tier == 'quick' else 3) for k in range(16)]
    sh += [('long', k, 16) for k in range(16)]
    sh += [('tfocus', k, 16) for k in range(16)]
    sh += [('truefocus', k, 32, tier) for k in range(32)]
    sh += [('sharedfocus', k, 32, tier) for k in range(32)]
    sh += [('controlfocus', k, 32, tier) for k in range(32)]
    sh += [('seq', k, 16) for k in range(16)]
    if tier != 'quick':
        sh += [('spine', k, 256, 3, tier) for k in range(256)]
    return sh


def select(t):
    tr, op = bodies.cut_positions(t)
    if op:
        return 'opaque-cut'
    if not (bodies.ops_used(t) & {';', '->', '\\+'}):
        return 'other-property'
    return None


def run_shard(spec):
    if spec[0] == 'trees':
        _, k, n, maxops, tier = spec
        return run_trees(k, n, maxops, tier)
    if spec[0] == 'spine':
        return run_spines(spec)
    if spec[0] == 'tails':
        return run_tails(spec)
    if spec[0] == 'locals':
        return run_locals(spec)
    if spec[0] == 'long':
        return run_long(spec)
    if spec[0] == 'controlfocus':
        return run_controlfocus(spec)
    if spec[0] == 'sharedfocus':
        return run_sharedfocus(spec)
    if spec[0] == 'truefocus':
        return run_truefocus(spec)
    if spec[0] == 'tfocus':
        return run_tfocus(spec)
    if spec[0] == 'seq':
        return run_seq(spec)
    return run_prec(spec)


# ---- long branches ------------------------------------------------------------------------------
# Sizes: a conjunction of 1..10 goals (the last one with two solutions) as then-branch, else-branch
# or continuation of each construct whose condition has alternatives of its own.
def long_cases():
    o, m, z = ('L', 'o'), ('L', 'm'), ('L', 'z')

    def long(n):
        t = m
        for _ in range(n - 1):
            t = (',', o, t)
        return t
    idx = 0
    for n in range(1, 11):
        ln = long(n)
        skeletons = [
            (';', ('->', (';', m, o), ln), m),
            (';', ('->', (';', ('->', m, o), o), ln), m),
            (',', (';', m, o), ln),
            (',', (';', ('->', m, o), z), ln),
            (',', ('\\+', (';', z, z)), ln),
            (';', ('->', (';', z, o), o), ln),
            (',', (';', ('->', o, ln), m), o),
            (';', ('->', ('\\+', (';', z, z)), ln), m),
            (';', ('->', (',', m, (';', z, o)), ln), m),
        ]
        for si, t in enumerate(skeletons):
            yield idx, n, si, t
            idx += 1


def run_tfocus(spec):
    """bodies with the leaf t (a test on the first leaf's variable, false for its first solution, true
    for the second): <= 2 operators over the 8 leaves + t, at least one t and one of ; -> \\+"""
    _, k, n = spec
    acc = Acc()
    idx = 0
    for nops in range(1, 3):
        for t in bodies.trees(nops, bodies.LEAVES + ['t']):
            idx += 1
            if idx % n != k:
                continue
            if select(t) is not None:
                continue
            first = t
            while first[0] != 'L':
                first = first[1]
            if first[1] not in ('m', 'o', 'k') or not _has_leaf(t, 't'):
                continue
            for vi, var in enumerate([dict(), dict(continuation=True)]):
                case = treecheck.tree_case(t, **var)
                res = case.run()
                if res['status'] == 'violation':
                    res['sig'] = 'test-on-condition-variable:' + res['sig']
                account(acc, ('T', idx, vi), case, res, key='%s %r' % (bodies.show_tree(t), sorted(var.items())))
    return acc


def run_truefocus(spec):
    """one operator more (3; thorough: the alphabet {true m z}) over the leaves {true, m}: every body in which
    `true` - which changes nothing - stands somewhere around the control constructs"""
    _, k, n, tier = spec
    acc = Acc()
    for idx, t in enumerate(bodies.trees(3, ['true', 'm'] if tier == 'quick' else ['true', 'm', 'z'])):
        if idx % n != k:
            continue
        if select(t) is not None or not _has_leaf(t, 'true'):
            continue
        case = treecheck.tree_case(t, continuation=True)
        res = case.run()
        if res['status'] == 'violation':
            res['sig'] = 'true-around-control-constructs:' + res['sig']
        account(acc, ('U', idx), case, res, key='%s truefocus' % bodies.show_tree(t))
    return acc


def run_controlfocus(spec):
    """4 operators, none of them a conjunction, over the leaves {o(Vi), z}: control constructs nested in control
    constructs three and four deep (conditions inside conditions, negations inside else-branches inside conditions)"""
    _, k, n, tier = spec
    acc = Acc()
    for idx, t in enumerate(bodies.trees(4, ['o', 'z'])):
        if idx % n != k:
            continue
        if ',' in bodies.ops_used(t) or select(t) is not None:
            continue
        case = treecheck.tree_case(t, continuation=True)
        res = case.run()
        if res['status'] == 'violation':
            res['sig'] = 'nested-control-constructs:' + res['sig']
        account(acc, ('N', idx), case, res, key='%s controlfocus' % bodies.show_tree(t))
    return acc


def run_sharedfocus(spec):
    """3 operators over the leaves {m(Vi), m(V1)}: the SAME goal (same variable) at several places of a body,
    e.g. at the start of both branches of a disjunction - each occurrence is a goal of its own"""
    _, k, n, tier = spec
    acc = Acc()
    for idx, t in enumerate(bodies.trees(3, ['m', 's'] if tier == 'quick' else ['m', 's', 'o'])):
        if idx % n != k:
            continue
        if select(t) is not None or not _has_leaf(t, 's'):
            continue
        case = treecheck.tree_case(t, continuation=True)
        res = case.run()
        if res['status'] == 'violation':
            res['sig'] = 'same-goal-at-several-places:' + res['sig']
        account(acc, ('S', idx), case, res, key='%s sharedfocus' % bodies.show_tree(t))
    return acc


def _has_leaf(t, kind):
    if t[0] == 'L':
        return t[1] == kind
    return any(_has_leaf(c, kind) for c in t[1:])


# ---- two constructs in one body -------------------------------------------------------------------
# The continuation of a disjunction / if-then-else is compiled once per alternative: a SECOND
# construct behind the first one is therefore compiled several times.  First construct: two
# alternatives for V1 (1, 2); second construct: condition / first alternative / negated goal is a
# conjunction of two goals, one of them the test t2(V1) (false for 1, true for 2).
def seq_cases():
    o, m, z, t = ('L', 'o'), ('L', 'm'), ('L', 'z'), ('L', 't')
    idx = 0
    firsts = [(';', m, o), (';', ('->', m, o), o), (';', m, m)]
    conds = [(',', t, o), (',', o, t), (',', t, z), (',', o, o), (',', m, t)]
    for f in firsts:
        for c in conds:
            for T in (m, o):
                for E in (m, o):
                    for second in ((';', ('->', c, T), E), ('->', c, T), (';', c, E), (',', ('\\+', c), T)):
                        for tail in (None, m):
                            tree = (',', f, second if tail is None else (',', second, tail))
                            yield idx, tree
                            idx += 1


def run_seq(spec):
    _, k, n = spec
    acc = Acc()
    for idx, tree in seq_cases():
        if idx % n != k:
            continue
        case = treecheck.tree_case(tree)
        res = case.run()
        if res['status'] == 'violation':
            res['sig'] = 'two-constructs:' + res['sig']
        account(acc, ('seq', idx), case, res, key='seq|%s' % bodies.show_tree(tree))
    return acc


def run_long(spec):
    _, k, n = spec
    acc = Acc()
    for idx, ngoals, si, t in long_cases():
        if idx % n != k:
            continue
        for vi, var in enumerate([dict(), dict(prefix=True, suffix=1)]):
            case = treecheck.tree_case(t, **var)
            res = case.run()
            if res['status'] == 'violation':
                res['sig'] = 'long-branch:' + res['sig']
            account(acc, ('long', idx, vi), case, res, key='long|%d|%d|%d' % (ngoals, si, vi))
    return acc


def run_trees(k, n, maxops, tier):
    acc = Acc()
    for idx, t in treecheck.enumerate_trees(maxops):
        if idx % n != k:
            continue
        why = select(t)
        if why == 'other-property':
            continue
        if why is not None:
            acc.n['evaluations'] += 1
            acc.skipped[why] += 1
            continue
        if bodies.count_ops(t) >= 3:
            variants = [dict(continuation=True)]
        else:
            variants = [dict(continuation=False), dict(continuation=True), dict(continuation=True, one_unit=True)]
        for vi, var in enumerate(variants):
            case = treecheck.tree_case(t, **var)
            res = case.run()
            if var.get('one_unit') and res['status'] == 'violation':
                res['sig'] = 'leaves-in-the-same-unit-plus-dynamic-facts:' + res['sig']
            account(acc, (0, idx, vi), case, res, key='%s %r' % (bodies.show_tree(t), sorted(var.items())))
            if res['status'] == 'ok' and len(acc.samples) < 2 and res['nontrivial'] and bodies.count_ops(t) == maxops:
                acc.sample({'tree': bodies.show_tree(t), 'variant': var,
                            'program': case.describe()['scripts'][1]['text'],
                            'answers_agreeing_with_reference': len(res['outcome'][0][1])})
    return acc


# ---- deep spines --------------------------------------------------------------------------
# The operator bound above limits the TOTAL number of operators.  The rewrite rules of the code
# generator, however, interact along one spine: what sits inside the condition, a branch or an
# alternative of a construct.  These families put a deep part D (every tree with <= dmax operators
# over the leaves o m z !) into ONE position of a construct whose other positions are single
# leaves, followed by a continuation goal.
DEEP_LEAVES = ['o', 'm', 'z', '!', 'q']


def deep_trees(dmax):
    out = []
    for n in range(dmax + 1):
        out += bodies.trees(n, DEEP_LEAVES)
    return out


def spine_cases(dmax, small):
    """yields symbolic trees; `small` is the leaf alphabet of the non-deep positions"""
    conds = [('L', k) for k in small if k != '!']
    leaves = [('L', k) for k in small]
    for d in deep_trees(dmax):
        cutfree = bodies.cut_positions(d) == (0, 0)
        if cutfree:
            for t_ in leaves:
                for e in leaves:
                    yield (';', ('->', d, t_), e)
                yield ('->', d, t_)
            yield ('\\+', d)
        for c in conds:
            for x in leaves:
                yield (';', ('->', c, d), x)
                yield (';', ('->', c, x), d)
            yield ('->', c, d)
        for x in leaves:
            yield (';', d, x)
            yield (';', x, d)
            yield (',', d, x)
            yield (',', x, d)


def tail_cases():
    """every tree with exactly 3 operators over two of the leaves {o z !} in each TAIL position of a construct
    (then, else, right alternative, right conjunct) whose other positions are the leaf o"""
    o = ('L', 'o')
    for leaves in (['o', '!'], ['z', '!'], ['o', 'z']):
        for d in bodies.trees(3, leaves):
            yield (';', ('->', o, d), o)
            yield (';', ('->', ('L', 'z'), o), d)
            yield (';', o, d)
            yield (',', o, d)


def local_var_cases(maxops):
    """trees whose leaves bind BODY-LOCAL variables (X, Y never occur in the head); the
    continuation R = r(X,Y) exposes them, so a binding that survives backtracking is visible"""
    leaves = [('L', k) for k in ('lx', 'ly', 'true', 'fail', 'lm')]
    out = []
    for n in range(maxops + 1):
        out += bodies.trees(n, ['lx', 'ly', 'true', 'fail', 'lm'])
    return out


def local_case(t):
    from ..terms import C
    Xl, Yl, R = V('X'), V('Y'), V('R')

    def go(t_):
        if t_[0] == 'L':
            return {'lx': call(F('=', Xl, A('a'))), 'ly': call(F('=', Yl, A('b'))), 'true': TRUE, 'fail': FAIL,
                    'lm': call(F('m', Xl))}[t_[1]]
        if t_[0] == '\\+':
            return ('\\+', go(t_[1]))
        return (t_[0], go(t_[1]), go(t_[2]))
    body = (',', go(t), call(F('=', R, F('r', Xl, Yl))))
    clause = (F('p', R), body)
    clause2 = (F('c', R, V('Z')), (',', call(F('m', V('Z'))), call(F('p', R))))
    return Case([(LEAF_PROGRAM, True, True), ([clause, clause2], True, False)], [], [F('c', V('Q'), V('Qz')), F('p', V('Q'))], repeat=1)


def run_locals(spec):
    _, k, n, maxops = spec
    acc = Acc()
    for idx, t in enumerate(local_var_cases(maxops)):
        if idx % n != k:
            continue
        case = local_case(t)
        res = case.run()
        if res['status'] == 'violation':
            res['sig'] = 'body-local-variables:' + res['sig']
        account(acc, (4, idx, 0), case, res, key=bodies.show_tree(t))
        if res['status'] == 'ok' and res['nontrivial'] and idx % 503 == 0:
            acc.sample({'body_local_tree': bodies.show_tree(t), 'program': case.describe()['scripts'][1]['text']}, limit=1)
    return acc


def run_tails(spec):
    _, k, n = spec
    acc = Acc()
    seen = set()
    for idx, t in enumerate(tail_cases()):
        if idx % n != k:
            continue
        key = bodies.show_tree(t)
        if key in seen:
            continue
        seen.add(key)
        tr, op = bodies.cut_positions(t)
        if op:
            acc.n['evaluations'] += 1
            acc.skipped['opaque-cut'] += 1
            continue
        case = treecheck.tree_case(t, prefix=False, suffix=1)
        res = case.run()
        if res['status'] == 'violation':
            res['sig'] = 'deep-tail:' + res['sig']
        account(acc, (3, idx, 0), case, res, key=key)
    return acc


def run_spines(spec):
    _, k, n, dmax, tier = spec
    acc = Acc()
    small = ['o', '!'] if tier == 'quick' else ['o', 'z', '!', 'm']
    if tier != 'quick' and dmax >= 3:
        small = ['o', '!']
    seen = set()
    for idx, t in enumerate(spine_cases(dmax, small)):
        if idx % n != k:
            continue
        if bodies.count_ops(t) <= (2 if tier == 'quick' else 3) and 'q' not in bodies.show_tree(t):
            continue   # already enumerated by the plain operator bound
        key = bodies.show_tree(t)
        if key in seen:
            continue
        seen.add(key)
        tr, op = bodies.cut_positions(t)
        if op:
            acc.n['evaluations'] += 1
            acc.skipped['opaque-cut'] += 1
            continue
        # the construct is entered once per solution of m(P) in front of it, and the leaf q tests P
        case = treecheck.tree_case(t, prefix=True, suffix=1)
        res = case.run()
        if res['status'] == 'violation':
            res['sig'] = 'deep-spine:' + res['sig']
        account(acc, (2, idx, 0), case, res, key=key)
        if res['status'] == 'ok' and res['nontrivial'] and idx % 7001 == 0:
            acc.sample({'deep_spine_tree': key, 'program': case.describe()['scripts'][1]['text']}, limit=1)
    return acc


# ---- precedence -------------------------------------------------------------------------

def prec_parse(items):
    """items: [leaf, op, leaf, op, ...] -> tree, by the documented precedences
    (independent of the grammar: split at the first loosest operator, right associative)"""
    if len(items) == 1:
        return items[0]
    for op in (';', '->', ','):
        for i in range(1, len(items), 2):
            if items[i] == op:
                return (op, prec_parse(items[:i]), prec_parse(items[i + 1:]))
    raise ValueError(items)


def leaf_body(kind, i, neg):
    if kind == 'true':
        b = TRUE
    elif kind == 'z':
        b = call(A('z'))
    else:
        b = call(F(kind, V('V%d' % i)))
    return ('\\+', b) if neg else b


def leaf_text(kind, i, neg):
    if kind == 'true':
        s = 'true'
    elif kind == 'z':
        s = 'z'
    else:
        s = '%s(V%d)' % (kind, i)
    return ('\\+ ' + s) if neg else s


def prec_cases(kmax):
    idx = 0
    for k in range(1, kmax + 1):
        for ops in itertools.product([',', ';', '->'], repeat=k):
            for kinds in itertools.product(PLEAVES, repeat=k + 1):
                for negs in itertools.product([False, True], repeat=k + 1):
                    yield idx, ops, kinds, negs
                    idx += 1


def prec_case(ops, kinds, negs):
    k = len(ops)
    items, texts = [], []
    for i in range(k + 1):
        items.append(leaf_body(kinds[i], i + 1, negs[i]))
        texts.append(leaf_text(kinds[i], i + 1, negs[i]))
        if i < k:
            items.append(ops[i])
            texts.append(ops[i])
    tree = prec_parse(items)
    hv = [V('V%d' % i) for i in range(1, k + 2)]
    head = F('p', *hv)
    text = 'p(%s) :- %s.\n' % (','.join('V%d' % i for i in range(1, k + 2)), ' '.join(texts))
    goal = F('p', *[V('A%d' % i) for i in range(1, k + 2)])
    return Case([(LEAF_PROGRAM, True, True), ([(head, tree)], True, False, text)], [], [goal], repeat=1), text


def run_prec(spec):
    _, kk, n, kmax, tier = spec
    acc = Acc()
    for idx, ops, kinds, negs in prec_cases(kmax):
        if idx % n != kk:
            continue
        case, text = prec_case(ops, kinds, negs)
        res = case.run()
        if res['status'] == 'violation':
            res['sig'] = 'precedence:' + res['sig']
        account(acc, (1, idx, 0), case, res, key=text)
        if res['status'] == 'ok' and len(acc.samples) < 1 and res['nontrivial'] and len(ops) == kmax:
            from ..terms import show_body
            acc.sample({'source_as_written': text.strip(), 'read_as': show_body(case.scripts[1][0][0][1])})
    return acc


replay = treecheck.replay
