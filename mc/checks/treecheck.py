"""shared by C05 and C06 (and reused by C03/C20): differential run of body trees in the
adversarial context of DESIGN C05"""
from .. import bodies
from ..bodies import LEAF_PROGRAM
from ..diff import Case, account
from ..runner import Acc
from ..terms import F, C, V, A, call, CUT

NSHARDS = 64


def tree_case(tree, continuation=False, extra_script=False, prefix=False, suffix=0, one_unit=False, wrapped=False, deep_guards=0):
    """one_unit: the leaf predicates are defined in the SAME compilation unit as the clause under test
    (whatever a compiler concludes from seeing all of their clauses), and each of them has one more
    answer at run time that the unit does not show: a dynamic fact"""
    body, k = bodies.instantiate(tree)
    if deep_guards:
        # N guard goals o(G) on one body-local variable and a cut in front of the body: the clause gets
        # deep without its head (and the heads of the other clauses of p) getting wide
        body = (',', CUT, body)
        for _ in range(deep_guards):
            body = (',', call(F('o', V('G'))), body)
    prog, nargs = bodies.context_program(body, k, continuation=continuation, prefix=prefix, suffix=suffix, wrapped=wrapped)
    if _has_leaf(tree, 'j'):
        prog = prog + bodies.KK_CLAUSES
    if one_unit:
        scripts = [(prog + LEAF_PROGRAM, True, False)]
    else:
        scripts = [(LEAF_PROGRAM, True, True), (prog, True, False)]
    if extra_script:
        # a second script adding clauses of p without overwrite: its clauses come after the
        # first definition and are not affected by a cut in it (shared with C08)
        six = [C(6)] * nargs
        scripts.append(([(F('p', *six) if six else A('p'), ('true',))], False, False))
    seven = [C(7)] * nargs
    facts = [((F('p', *seven) if seven else A('p')), True)]
    if one_unit:
        facts += [(F('o', C(3)), True), (F('m', C(3)), True), (F('t2', C(3)), True)]
    qv = [V('A%d' % i) for i in range(1, nargs + 1)] + [V('Z')]
    goal = F('c', *qv)
    return Case(scripts, facts, [goal])


def _has_leaf(t, kind):
    if t[0] == 'L':
        return t[1] == kind
    return any(_has_leaf(c, kind) for c in t[1:])


def enumerate_trees(maxops):
    idx = 0
    for n in range(maxops + 1):
        for t in bodies.trees(n):
            yield idx, t
            idx += 1


def run_trees(spec, select, variants):
    """spec = (k, nshards, maxops); select(tree) -> None (take) | reason (skip);
    variants: list of dict(continuation=, extra_script=)"""
    k, n, maxops = spec
    acc = Acc()
    for idx, t in enumerate_trees(maxops):
        if idx % n != k:
            continue
        why = select(t)
        if why == 'other-property':
            continue
        if why is not None:
            acc.n['evaluations'] += 1
            acc.skipped[why] += 1
            continue
        for vi, var in enumerate(variants):
            case = tree_case(t, **var)
            res = case.run()
            account(acc, (idx, vi), case, res, key='%s %r' % (bodies.show_tree(t), sorted(var.items())))
            if res['status'] == 'ok' and len(acc.samples) < 2 and res['nontrivial'] and bodies.count_ops(t) == maxops:
                acc.sample({'tree': bodies.show_tree(t), 'variant': var,
                            'program': case.describe()['scripts'][1]['text'],
                            'query': case.describe()['queries'][0],
                            'answers_agreeing_with_reference': len(res['outcome'][0][1])})
    return acc


def replay(case_json):
    case = Case.from_json(case_json)
    res = case.run()
    if res['status'] == 'violation':
        return [(res['sig'], res['detail'])]
    return []
