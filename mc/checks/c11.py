"""C11 - whatever the compiler accepts loads and defines exactly the program's predicates."""
import inspect
import itertools
import os

from .. import impl, pyast
from .. import refgrammar as rg
from ..budget import StepBudget, Exceeded
from ..runner import Acc, watchdog, Hang
from . import c10

ID = 'C11'
LEVEL = 'model_checking'
RULE = ('every grammar sentence (clause or directive) with <= N tokens over one representative per token class, each '
        'with every token replaced by the other members of its lexical class, plus boundary families enumerated '
        'completely: numeral spellings (0 00 01 007 10 123 20 digits) x 5 term positions; characters outside the lexicon (byte order marks, zero-width space, NUL, ^Z, no-break space) as first / last / only character; sources of 1 and 2 MiB with clauses around the MiB marks; outputs of more than 1 MiB (a table of long atoms) next to a clause too big / a term too deep for Python; 14 hostile source file NAMES with debug_filename on (lone surrogates, line breaks, NUL, coding declarations, 300 characters) x 7 programs incl. ones at and beyond the sizes Python can load; numerals of 50 .. 9000 digits (around Python\'s limit of 4300 digits); 16 variable names that are '
        'Python constants / engine names / loop-variable look-alikes x 4 clause shapes; 24 predicate names (Python '
        'keywords, suffix look-alikes, quoted names with spaces, operators, digits, non-ASCII, empty) as clause head; '
        'bodies that cannot succeed; one predicate name spelled in several ways; 26 words of the target language (yield, return, pass, doBreak, ...) as atoms, functor names and goal names in succeeding and never-succeeding clauses; conjunction length 1..30, a grid of mixed sizes (0..20 goals x if-then-else nested 0..12 deep x 0/4/9 structured head arguments; 1..25 negated goals; 1..9 if-then-else goals in sequence), head arity 0..40, term nesting 1..120, list length '
        '0..300, disjunction / if-then-else / negation nesting 1..12. Every family program is compiled alone and between two ordinary predicates; every text is also written to ONE file (rewritten for each text) and compiled through compile_prolog_from_file, which must return exactly what compile_prolog_from_string returns for the text the file holds now. If the compiler returns text: it must compile as '
        'Python, its module body must be function definitions only, each name defined once, loading it must add exactly the keys name_arity '
        'of the clause heads (RefGrammar), each a generator function, each callable through query without a '
        'NameError/TypeError/UnboundLocalError. A CompilerError is accepted instead of code. states = distinct '
        '(outcome, defined key set) classes; transitions = compile+load+query operations; non-trivial = code was '
        'returned and loaded')
ASSUMPTIONS = ['clause heads are extracted by RefGrammar (independent of the compiler)',
               'sizes beyond the stated ranges are not covered']
DEFECT_EXC = (NameError, TypeError, AttributeError, UnboundLocalError, SyntaxError, KeyError, IndexError)


def bounds(tier):
    return {'seed_tokens': 7 if tier == 'quick' else 9}


def families():
    out = []
    nums = ['0', '00', '01', '007', '10', '123', '99999999999999999999', '0x', ]
    for n in nums[:7]:
        out += [('numeral', t) for t in ('foo(%s).' % n, 'foo(%s) :- bar(%s).' % (n, n), 'foo :- bar(%s).' % n,
                                          'foo(f(%s,g(%s))).' % (n, n), 'foo([%s,%s|T]).' % (n, n), 'foo(X) :- X = %s.' % n,
                                          '%s(a).' % n)]
    # numerals of EVERY size class: Python limits the digits of an integer literal / of int<->str
    # conversions (4300 by default); what the compiler accepts must still load
    for digits in (50, 640, 4299, 4300, 4301, 5000, 9000):
        n = '1' + '0' * (digits - 2) + '7'
        out += [('long-numeral', t) for t in ('foo(%s).' % n, 'foo(X) :- X = %s.' % n, 'foo :- bar(%s, 0%s).' % (n, n))]
    # characters outside the lexicon at the very start, the very end and alone (byte order marks,
    # zero-width characters, NUL, ^Z): rejected - and rejected alike through the file API, which
    # decodes the bytes itself
    for ch in ('\ufeff', '\ufffe', '\u200b', '\x00', '\x1a', '\xa0', '#'):
        out += [('foreign-first-character', t) for t in (ch + 'foo(a).', ch, 'foo(a).' + ch, 'foo(a).\n' + ch + 'bar(b).', ch + ch + 'foo(a).')]
    # one predicate whose name is SPELLED in several ways (unquoted, quoted, quoted with an escaped
    # quote elsewhere in the program), its clauses contiguous or not
    for a_, b_ in (('colour', "'colour'"), ("'colour'", 'colour'), ("'it\\'s'", "'it\\'s'"), ('[]', "'[]'")):
        out += [('spellings', t) for t in ('%s(red).\n%s(green).\n' % (a_, b_), '%s(red).\nother(x).\n%s(green).\n%s(blue).\n' % (a_, b_, a_),
                                          '%s(X) :- %s(X, y).\n%s(a, y).\n%s(b, y).\n' % (a_, b_, a_, b_))]
    # sources of more than 1 and 2 MiB (comment lines as filling), clauses at the start, around the MiB marks
    # and at the very end: every clause is compiled, through the string API and through the file API
    for mib in (1, 2):
        fill = '% ' + 'x' * 62 + '\n'
        nlines = (mib << 20) // len(fill)
        out.append(('huge-source', 'first(a).\n' + fill * (nlines - 2) + 'before_mark(b).\n' + fill * 4 + 'after_mark(c).\n' + fill * 200 + 'last(d).\n'))
    # LARGE OUTPUT (a table of long atoms: more than 1 MiB of generated code) next to a clause that is too big
    # for Python, next to a term that is too deep, and alone
    table = ''.join("row%d('%s').\n" % (i, chr(97 + i) * 100000) for i in range(12))
    out.append(('huge-output', table + 'p(X) :- %s.\n' % ', '.join('g%d(X)' % i for i in range(25))))
    out.append(('huge-output', 'p(%sa%s).\n' % ('f(' * 120, ')' * 120) + table))
    out.append(('huge-output', table))
    vs = ['X', 'True', 'False', 'None', 'ATOM_NIL', 'Query', 'L1', 'Arg1', '_x', '__', '_1', 'X_y', 'DoBreak', 'CutIf1',
          'Yield', '__builtins__', '_L1', 'Unify']
    for v in vs:
        out += [('variable', t) for t in ('foo(%s) :- bar(%s).' % (v, v), 'foo(f(%s)) :- %s = a.' % (v, v),
                                           'foo :- bar(%s), baz(%s).' % (v, v), 'foo(%s,%s).' % (v, v),
                                           'foo([%s|%s]).' % (v, v), 'foo(%s) :- (a(%s) -> b ; c(%s)), \\+ d(%s).' % (v, v, v, v))]
    names = ['def', 'class', 'if', 'for', 'while', 'none', 'import', 'lambda', 'yield', 'pass', 'p_1', 'p__2', 'query',
             'atom', 'variable', 'unify', "'hello world'", "'p-q'", "'1a'", "'Abc'", "'五'", "''", "'a.b'", "'def'", "'é'",
             "'a b'", "'_'", "'x\ny'"]
    for nm in names:
        out += [('predicate-name', t) for t in ('%s(a).' % nm, '%s :- true.' % nm, '%s(X) :- %s(X).' % (nm, nm), 'foo :- %s(a).' % nm)]
    for b in ['fail', 'g, fail', '(a ; b), fail', '\\+ true', 'fail ; fail', '(fail -> a ; fail)', '!, fail', 'fail, g',
              '(a -> fail)', '\\+ \\+ fail', '(fail ; fail), (a ; b)', 'true', '!', '(! ; fail)']:
        out += [('never-succeeds', 'p :- %s.' % b), ('never-succeeds', 'p(X) :- %s.' % b), ('never-succeeds', 'p(f(X)) :- %s.\np(a).' % b)]
    # words of the target language as DATA (atoms, functor names, goal names): whatever the
    # compiler decides must not depend on the text of atoms
    words = ['yield', 'return', 'pass', 'break', 'def', 'for', 'if', 'else', 'doBreak', 'False', 'True', 'None', 'cutIf1',
             'yield False', 'import', 'l1', 'arg1', 'variable', 'query', 'lambda', 'raise', 'x1', 'continue', 'while', 'in', 'not']
    for w in words:
        q = w if (w.isidentifier() and w[0].islower() and w not in ('true', 'fail')) else "'%s'" % w
        for body in ['q(%s), fail' % q, '%s(a), fail' % q, 'r(%s(b)), fail' % q, '(q(%s) -> fail ; fail)' % q, 'X = %s, fail' % q,
                     '\\+ true, %s' % q, 'q(%s)' % q, '%s' % q, '!, %s(X), fail' % q, 'fail, %s' % q]:
            out.append(('python-words', 'p(X) :- %s.' % body))
        out.append(('python-words', 'p(%s) :- fail.' % q))
        out.append(('python-words', 'p(%s).\np(X) :- %s(X), fail.' % (q, q)))
    for n in range(1, 31):
        out.append(('conjunction-length', 'p(X) :- %s.' % ', '.join('g%d(X)' % i for i in range(n))))
        out.append(('conjunction-length', 'p(X) :- %s.' % ', '.join('X = %d' % i for i in range(n))))
    for n in range(0, 41):
        args = ','.join('A%d' % i for i in range(n))
        out.append(('head-arity', ('p(%s).' % args) if n else 'p.'))
        out.append(('head-arity', ('p(%s) :- q(%s).' % (','.join('f(A%d)' % i for i in range(n)), args)) if n else 'p :- q.'))
    # sizes mixed: block nesting comes from goals, structured head arguments, negations and
    # if-then-else alike; every combination on a grid around Python's limit of 20 nested blocks
    for n in range(1, 26):
        out.append(('mixed-size', 'p(X) :- %s.' % ', '.join('\\+ b%d(X)' % i for i in range(n))))
    for n in range(1, 10):
        # (a sequence of n if-then-else goals compiles to 2**n copies of what follows - the code
        # generator distributes the continuation over both branches; no property speaks about
        # compile time, so the family stops where this is still fast)
        out.append(('mixed-size', 'p(X) :- %s.' % ', '.join('( c%d(X) -> t%d(X) ; e%d(X) )' % (i, i, i) for i in range(n))))
    for g in range(0, 21, 2):
        for d in range(0, 13):
            for h in (0, 4, 9):
                goals = ['g%d(X)' % i for i in range(g)]
                ite = 'a(X)'
                for i in range(d):
                    ite = '( c%d(X) -> %s ; e%d(X) )' % (i, ite, i)
                head = 'p(X%s)' % ''.join(', f(H%d)' % i for i in range(h))
                out.append(('mixed-size', '%s :- %s.' % (head, ', '.join(goals + [ite]))))
    for n in list(range(1, 30)) + [40, 60, 80, 90, 95, 100, 105, 110, 120]:
        out.append(('term-nesting', 'p(%s).' % ('f(' * n + 'a' + ')' * n)))
        out.append(('term-nesting', 'p(X) :- q(%s).' % ('[' * n + 'X' + ']' * n)))
    for n in [0, 1, 2, 3, 10, 50, 100, 200, 300]:
        out.append(('list-length', 'p([%s]).' % ','.join('a' for _ in range(n))))
        if n:
            out.append(('list-length', 'p([%s|T]).' % ','.join('X%d' % i for i in range(n))))
    for n in range(1, 13):
        d = 'a'
        for i in range(n):
            d = '(%s ; b%d)' % (d, i)
        out.append(('nesting', 'p :- %s.' % d))
        d = 'a'
        for i in range(n):
            d = '(c%d -> %s ; e%d)' % (i, d, i)
        out.append(('nesting', 'p :- %s.' % d))
        out.append(('nesting', 'p :- %s a.' % ('\\+ ' * n)))
        d = 'a'
        for i in range(n):
            d = '(c%d -> %s)' % (i, d)
        out.append(('nesting', 'p :- %s, z.' % d))
    return out


MUST_ACCEPT = ('numeral', 'variable', 'never-succeeds', 'python-words')


# The file API on ONE path whose content is rewritten for every program of a shard: what the file
# holds when it is compiled is what counts (programs of equal length follow each other within a
# second all the time in the families)
REUSED = {'path': None, 'previous': None, 'previous_before': None}


def compile_reused(text):
    with open(REUSED['path'], 'w', encoding='utf8', newline='') as f:
        f.write(text)
    try:
        return impl.compiler.compile_prolog_from_file(REUSED['path'], impl.Ctx)
    except Exception as e:  # noqa: BLE001
        return 'EXC:' + type(e).__name__


def check_text(text, tag=None):
    """-> (status, sig, detail, outcome)"""
    if REUSED['path'] is not None:
        prev = REUSED['previous_before'] = REUSED['previous']
        got = compile_reused(text)
        REUSED['previous'] = text
        try:
            want = impl.compile_text(text)
        except Exception as e:  # noqa: BLE001
            want = 'EXC:' + type(e).__name__
        if got != want:
            return ('violation', 'file-api-differs-from-string-api',
                    'text: %r\nwritten to a file that held %r before: compile_prolog_from_file returns\n%s\nbut compile_prolog_from_string of the same text returns\n%s'
                    % (text[:300], (prev or '')[:300], got[-400:], want[-400:]), None)
    return check_text_1(text, tag)


def check_text_1(text, tag=None):
    r = rg.analyse(text)
    try:
        out = impl.compile_text(text)
    except Exception as e:  # noqa: BLE001
        # raising - whatever the exception - is the compiler's way of not accepting an input.
        # The property allows that for clauses that are too large; for the lexical boundary
        # forms it names (any numeral spelling, any variable name, bodies that can never
        # succeed) in ordinary small clauses with plain heads, an error is not 'holding'.
        if tag in MUST_ACCEPT and r.accepted and r.heads is not None and all(c10.IDENT.match(nm) for nm, _ in r.heads):
            return ('violation', 'rejects-supported-form:' + type(e).__name__,
                    'text: %r\nis a small clause in a lexical form the property names, but the compiler raised %r' % (text, e), None)
        return ('ok', None, None, ('rejected', type(e).__name__))
    if not r.accepted:
        return ('ok', None, None, ('outside-language(C10)',))
    try:
        code = compile(out, '<generated>', 'exec')
    except (SyntaxError, ValueError, RecursionError, MemoryError, OverflowError) as e:
        return ('violation', 'output-not-loadable:' + type(e).__name__,
                'text: %r\nthe compiler returned text that Python refuses: %s: %s' % (text[:300], type(e).__name__, e), None)
    try:
        probs = [p for p in pyast.check_module(out) if p[0] == 'module-level-statement']
    except RecursionError:
        probs = []
    # exactly ONE function per predicate: a second def of the same name silently replaces the first
    try:
        import ast as _ast
        import collections as _c
        defs = _c.Counter(n.name for n in _ast.parse(out).body if isinstance(n, _ast.FunctionDef))
        dup = sorted(k for k, v in defs.items() if v > 1)
    except (RecursionError, SyntaxError):
        dup = []
    if dup:
        return ('violation', 'function-defined-more-than-once', 'text: %r\nthe returned text defines %s more than once' % (text[:300], dup), None)
    if probs:
        return ('violation', 'module-level-statement', 'text: %r\n%s' % (text[:300], probs[0][1]), None)
    yp = impl.YP()
    before = set(yp.eval_context)
    try:
        yp.load_script_from_string(out, fn=impl.SCRIPT_FN)
    except Exception as e:  # noqa: BLE001
        return ('violation', 'load-raises:' + type(e).__name__, 'text: %r\nloading the output raised %r' % (text[:300], e), None)
    added = sorted(set(yp.eval_context) - before)
    if r.heads is None:
        return ('ok', None, None, ('loaded', 'heads-not-plain', len(added)))
    want = sorted(set('%s_%d' % h for h in r.heads))
    if added != want:
        return ('violation', 'defined-predicates-differ',
                'text: %r\nclause heads: %s\nkeys added to the engine by loading the output: %s' % (text[:300], want, added), None)
    for key, (name, n) in zip(want, sorted(set(r.heads), key=lambda h: '%s_%d' % h)):
        f = yp.eval_context[key]
        if not inspect.isgeneratorfunction(f):
            return ('violation', 'not-a-generator-function', 'text: %r\n%s is not a generator function' % (text[:300], key), None)
    for name, n in sorted(set(r.heads)):
        vs = [yp.variable() for _ in range(n)]
        try:
            with StepBudget(200000):
                q = yp.query(name, vs)
                for _ in q:
                    break
                q.close()
        except Exceeded:
            pass
        except RecursionError:
            pass
        except DEFECT_EXC as e:
            return ('violation', 'call-raises:' + type(e).__name__,
                    'text: %r\ncalling %s/%d raised %r' % (text[:300], name, n, e), None)
        except Exception:  # noqa: BLE001 - e.g. YPException from a builtin: not a code defect
            pass
    return ('ok', None, None, ('loaded', tuple(want)))


def with_neighbours(text):
    """the program between two ordinary predicates: whatever its clauses compile to, the
    predicates before and after it must be defined as usual"""
    return 'zzbefore(ok).\n' + text + ('\n' if not text.endswith('\n') else '') + 'zzafter(X) :- zzbefore(X).\n'


def process(acc, index, tag, text):
    if tag != 'sentence' and tag != 'term-nesting' and tag != 'list-length':
        _process(acc, index, tag, with_neighbours(text))
    _process(acc, index, tag, text)


def _process(acc, index, tag, text):
    acc.n['evaluations'] += 1
    acc.n['validated'] += 1
    acc.n['transitions'] += 1
    try:
        with watchdog(120):
            st, sig, detail, outcome = check_text(text, tag)
    except Hang as e:
        st, sig, detail, outcome = 'violation', 'hang', '%r: %s' % (text[:200], e), None
    if st == 'violation':
        acc.violation(tag + ':' + sig, index, {'text': text, 'tag': tag, 'previous': REUSED['previous_before'] if sig.startswith('file-api') else None}, detail, key=text)
        return
    acc.outcome(outcome if len(repr(outcome)) < 200 else outcome[:1])
    acc.n['family:' + tag] += 1
    if outcome[0] == 'loaded':
        acc.n['nontrivial'] += 1
        acc.n['transitions'] += 2


# ---- the source file NAME is text from outside too -------------------------------------------------
# With debug_filename the name of the source reaches the output (as a comment): whatever the name is,
# what the compiler returns still loads and defines the program's predicates.
HOSTILE_FILE_NAMES = ['prog.pl', 'caf\udce9.pl', 'a\nb.pl', 'a\rb.pl', 'x\x00y.pl', '\u00fc\u4e94.pl', 'coding: utf_7 .pl', 'n' * 300 + '.pl',
                      "it's \"quoted\".pl", 'tab\there.pl', 'sep\u2028here.pl', '', '-', '#!shebang']


# ... with small programs and with programs at and beyond the sizes Python can load (the loadability of
# what is returned is decided for the text that is returned, whatever the file is called)
NAME_TEXTS = ['foo(a).\n', 'p(X) :- q(X), \\+ r(X).\nq(b).\n',
              'p(X) :- %s.\n' % ', '.join('g%d(X)' % i for i in range(25)), 'p(X) :- %s.\n' % ', '.join('g%d(X)' % i for i in range(18)),
              'p(%s).\n' % ', '.join('a%d' % i for i in range(22)), 'p(%sa%s).\n' % ('f(' * 120, ')' * 120), 'p(%sa%s).\n' % ('f(' * 60, ')' * 60)]


def check_file_name(name, text):
    class NCtx(impl.Ctx):
        debug_filename = True
        current_source_file = name
    try:
        out = impl.compiler.compile_prolog_from_string(text, NCtx)
    except Exception as e:  # noqa: BLE001
        return ('ok', None, None, ('rejected', type(e).__name__))
    yp = impl.YP()
    before = set(yp.eval_context)
    try:
        yp.load_script_from_string(out, fn=impl.SCRIPT_FN)
    except Exception as e:  # noqa: BLE001
        return ('violation', 'file-name:accepted-but-not-loadable:' + type(e).__name__,
                'source file name %r (debug_filename on), text %r: the compiler returned text that does not load: %r' % (name, text[:200], e), None)
    added = sorted(set(yp.eval_context) - before)
    r = rg.analyse(text)
    want = sorted(set('%s_%d' % h for h in r.heads))
    if added != want:
        return ('violation', 'file-name:defined-predicates-differ', 'source file name %r (debug_filename on), text %r: loading adds %s, the clause heads are %s' % (name, text[:200], added, want), None)
    return ('ok', None, None, ('loaded-with-file-name', len(added)))


NSH = 32


def plan(tier):
    return [(tier, kind, k, NSH) for kind in ('seeds', 'families') for k in range(NSH)] + [(tier, 'names', 0, 1)]


def run_shard(spec):
    import shutil
    import tempfile
    d = tempfile.mkdtemp(prefix='verif-c11-')
    REUSED['path'] = os.path.join(d, 'program.prolog')
    REUSED['previous'] = None
    try:
        return _run_shard(spec)
    finally:
        REUSED['path'] = None
        shutil.rmtree(d, ignore_errors=True)


def _run_shard(spec):
    tier, kind, k, n = spec
    acc = Acc()
    if kind == 'names':
        for ni, name in enumerate(HOSTILE_FILE_NAMES):
            for ti, text in enumerate(NAME_TEXTS):
                acc.n['evaluations'] += 1
                acc.n['validated'] += 1
                acc.n['transitions'] += 2
                st, sig, detail, outcome = check_file_name(name, text)
                if st == 'violation':
                    acc.violation(sig, (2, ni, ti), {'file_name': name, 'text': text}, detail, key='name|%d|%d' % (ni, ti))
                else:
                    acc.outcome(outcome)
                    acc.n['nontrivial'] += 1
        return acc
    if kind == 'seeds':
        maxtok = 7 if tier == 'quick' else 9
        for idx, kinds in enumerate(c10.seeds(maxtok)):
            if idx % n != k:
                continue
            toks = c10.spell_tokens(kinds)
            process(acc, (0, idx), 'sentence', ' '.join(toks))
            for i, kd in enumerate(kinds):
                for alt in c10.CLASS_MEMBERS.get(kd, ()) + EXTRA_MEMBERS.get(kd, ()):
                    process(acc, (0, idx), 'sentence', ' '.join(toks[:i] + [alt] + toks[i + 1:]))
            if idx % 41 == 0:
                acc.sample({'sentence': ' '.join(toks)}, limit=1)
    else:
        for idx, (tag, text) in enumerate(families()):
            if idx % n != k:
                continue
            process(acc, (1, idx), tag, text)
            if idx % 97 == 0:
                acc.sample({'family': tag, 'text': text[:120]}, limit=1)
    return acc


EXTRA_MEMBERS = {'NUMERAL': ('007',), 'VARIABLE': ('True', 'ATOM_NIL'), 'ATOM': ('def', 'query')}
for _k, _v in list(c10.CLASS_MEMBERS.items()):
    c10.CLASS_MEMBERS[_k] = tuple(_v)


def replay(case):
    if 'file_name' in case:
        st, sig, detail, _ = check_file_name(case['file_name'], case['text'])
        return [(sig, detail)] if st == 'violation' else []
    if case.get('previous') is not None:
        import shutil
        import tempfile
        d = tempfile.mkdtemp(prefix='verif-c11-')
        REUSED['path'] = os.path.join(d, 'program.prolog')
        try:
            compile_reused(case['previous'])
            REUSED['previous'] = case['previous']
            st, sig, detail, _ = check_text(case['text'], case.get('tag'))
        finally:
            REUSED['path'] = None
            shutil.rmtree(d, ignore_errors=True)
        return [(sig, detail)] if st == 'violation' else []
    st, sig, detail, _ = check_text(case['text'], case.get('tag'))
    if st == 'violation':
        return [(sig, detail)]
    return []
