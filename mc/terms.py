"""Reference-side term and program representation, and the printer to source text.

Terms are immutable tuples:
    ('a', name)          atom
    ('c', value)         Python constant (int in source text; any hashable through the API)
    ('f', name, args)    compound term, args is a tuple of terms
    ('v', key)           variable.  In program templates key is a str (source name) or
                         ('_', n) for the n-th anonymous variable of the clause; at run time
                         the reference interpreter renames them to ints.

Bodies are tuples:
    ('call', term) ('true',) ('fail',) ('!',) (',', l, r) (';', l, r) ('->', c, t) ('\\+', g)

A clause is (head_term, body).  A program is a list of clauses.
"""
import re

NIL = ('a', '[]')


def A(name):
    return ('a', name)


def C(value):
    return ('c', value)


def F(name, *args):
    return ('f', name, tuple(args))


def V(key):
    return ('v', key)


def L(items, tail=NIL):
    r = tail
    for it in reversed(list(items)):
        r = ('f', '.', (it, r))
    return r


TRUE = ('true',)
FAIL = ('fail',)
CUT = ('!',)


def call(t):
    return ('call', t)


def conj(*gs):
    gs = list(gs)
    r = gs[-1]
    for g in reversed(gs[:-1]):
        r = (',', g, r)
    return r


_UNQUOTED = re.compile(r'[a-z][a-zA-Z0-9_]*\Z')
_RESERVED = {'true', 'fail'}


def show_atom(name):
    if name == '[]':
        return '[]'
    if _UNQUOTED.match(name) and name not in _RESERVED:
        return name
    return "'" + name.replace("'", "\\'") + "'"


def show_name(name):
    """functor / predicate name in front of '('"""
    if _UNQUOTED.match(name) and name not in _RESERVED:
        return name
    return "'" + name.replace("'", "\\'") + "'"


class Unprintable(Exception):
    pass


def show_term(t):
    k = t[0]
    if k == 'a':
        return show_atom(t[1])
    if k == 'c':
        if isinstance(t[1], int) and not isinstance(t[1], bool) and t[1] >= 0:
            return str(t[1])
        raise Unprintable(t)
    if k == 'v':
        key = t[1]
        if isinstance(key, tuple):
            return '_'
        return str(key)
    if k == 'f':
        name, args = t[1], t[2]
        if name == '.' and len(args) == 2:
            items = []
            cur = t
            while cur[0] == 'f' and cur[1] == '.' and len(cur[2]) == 2:
                items.append(cur[2][0])
                cur = cur[2][1]
            if cur == NIL:
                return '[' + ','.join(show_term(i) for i in items) + ']'
            if cur[0] == 'v':
                return '[' + ','.join(show_term(i) for i in items) + '|' + show_term(cur) + ']'
            raise Unprintable(t)
        if name in ('=', '\\=') and len(args) == 2:
            return '%s %s %s' % (show_arg(args[0]), name, show_arg(args[1]))
        return show_name(name) + '(' + ','.join(show_term(a) for a in args) + ')'
    raise Unprintable(t)


def show_arg(t):
    if t[0] == 'f' and t[1] in ('=', '\\=') and len(t[2]) == 2:
        return '(' + show_term(t) + ')'
    return show_term(t)


def show_body(b, top=True):
    k = b[0]
    if k == 'call':
        return show_term(b[1])
    if k == 'true':
        return 'true'
    if k == 'fail':
        return 'fail'
    if k == '!':
        return '!'
    if k in (',', ';', '->'):
        s = '%s %s %s' % (show_body(b[1], False), k, show_body(b[2], False))
        return s if top else '(' + s + ')'
    if k == '\\+':
        return '\\+ ' + show_body(b[1], False)
    raise Unprintable(b)


def show_clause(c):
    head, body = c
    if body == TRUE or body is None:
        return show_term(head) + '.'
    return '%s :- %s.' % (show_term(head), show_body(body))


def show_program(clauses):
    return '\n'.join(show_clause(c) for c in clauses) + '\n'


def term_vars(t, acc=None):
    if acc is None:
        acc = []
    if t[0] == 'v':
        if t[1] not in acc:
            acc.append(t[1])
    elif t[0] == 'f':
        for a in t[2]:
            term_vars(a, acc)
    return acc


def body_vars(b, acc=None):
    if acc is None:
        acc = []
    if b[0] == 'call':
        term_vars(b[1], acc)
    elif b[0] in (',', ';', '->'):
        body_vars(b[1], acc)
        body_vars(b[2], acc)
    elif b[0] == '\\+':
        body_vars(b[1], acc)
    return acc


def pred_key(t):
    if t[0] == 'a':
        return (t[1], 0)
    if t[0] == 'f':
        return (t[1], len(t[2]))
    raise ValueError('not callable: %r' % (t,))


def term_size(t):
    if t[0] == 'f':
        return 1 + sum(term_size(a) for a in t[2])
    return 1


def pp(t):
    """display form that never raises (for messages about API-built terms)"""
    try:
        return show_term(t)
    except Unprintable:
        pass
    k = t[0]
    if k == 'c':
        return repr(t[1])
    if k == 'f':
        return "%s(%s)" % (show_name(t[1]), ','.join(pp(a) for a in t[2]))
    return repr(t)
