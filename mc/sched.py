"""E4b - thread schedule explorer: real threads under a baton scheduler.

Every traced source line of the code under test (files of the yldprolog package and loaded
scripts) is a scheduling point.  Exactly one thread runs at a time; at a point the scheduler
either lets the running thread continue (choice 0) or hands the baton to another thread
(choice k > 0, a preemption).  A schedule is the list of choices; `run(prefix)` replays a
prefix and then always takes choice 0.  `explore` enumerates every schedule with at most
`bound` preemptions (iterative context bounding, as in CHESS).
"""
import os
import sys
import threading


class Divergence(Exception):
    pass


class Deadlock(Exception):
    """no thread reaches a scheduling point or finishes any more: the thread that holds the
    baton is blocked on something outside the scheduler (a real lock held by a suspended thread)"""

    def __init__(self, msg, choices, tid):
        Exception.__init__(self, msg)
        self.choices = choices
        self.tid = tid


STALL_SECONDS = float(os.environ.get('VERIF_STALL_SECONDS', '30'))


class Execution:
    def __init__(self):
        self.choices = []
        self.points = []      # per point: (number of enabled threads, running thread still enabled)
        self.results = {}
        self.errors = {}


class Baton:
    def __init__(self, bodies, prefix, in_scope, max_points=200000):
        self.bodies = bodies
        self.n = len(bodies)
        self.prefix = list(prefix)
        self.in_scope = in_scope
        self.sems = [threading.Semaphore(0) for _ in bodies]
        self.done = [False] * self.n
        self.started = [False] * self.n
        self.x = Execution()
        self.finished = threading.Semaphore(0)
        self.max_points = max_points
        self.abort = None
        self.current = None
        self.ticks = 0

    # -- choice -------------------------------------------------------------------------
    def choose(self, enabled, running_enabled):
        i = len(self.x.choices)
        if i < len(self.prefix):
            c = self.prefix[i]
            if c >= len(enabled):
                self.abort = Divergence('replayed choice %d at point %d but only %d threads are enabled' % (c, i, len(enabled)))
                c = 0
        else:
            c = 0
        self.x.choices.append(c)
        self.x.points.append((len(enabled), running_enabled))
        if len(self.x.points) > self.max_points:
            self.abort = Divergence('more than %d scheduling points' % self.max_points)
        return enabled[c]

    def point(self, tid):
        self.ticks += 1
        if self.abort is not None:
            return
        others = [t for t in range(self.n) if t != tid and not self.done[t]]
        if not others:
            return
        nxt = self.choose([tid] + others, True)
        if nxt != tid:
            self.current = nxt
            self.sems[nxt].release()
            self.sems[tid].acquire()

    def thread_main(self, tid):
        self.sems[tid].acquire()
        self.started[tid] = True
        sys.settrace(self.make_trace(tid))
        try:
            self.x.results[tid] = self.bodies[tid]()
        except BaseException as e:  # noqa: BLE001
            self.x.errors[tid] = e
        finally:
            sys.settrace(None)
            self.done[tid] = True
            others = [t for t in range(self.n) if not self.done[t]]
            if others:
                if self.abort is None:
                    nxt = self.choose(others, False)
                else:
                    nxt = others[0]
                self.current = nxt
                self.ticks += 1
                self.sems[nxt].release()
            else:
                self.finished.release()

    def make_trace(self, tid):
        in_scope = self.in_scope
        point = self.point

        def local(frame, event, arg):
            if event == 'line':
                point(tid)
            return local

        def glob(frame, event, arg):
            if event == 'call' and in_scope(frame.f_code.co_filename):
                point(tid)
                return local
            return None
        return glob

    def run(self):
        threads = [threading.Thread(target=self.thread_main, args=(t,), daemon=True) for t in range(self.n)]
        for t in threads:
            t.start()
        first = self.choose(list(range(self.n)), False)
        self.current = first
        self.sems[first].release()
        # the wait is a liveness watch, not a time limit: it only gives up when NO scheduling point
        # was passed and no thread finished during a whole interval
        seen = -1
        while not self.finished.acquire(timeout=STALL_SECONDS):
            if self.ticks == seen:
                raise Deadlock('thread %d holds the baton but passed no scheduling point for %d s after %d points: it is blocked '
                               'outside the scheduler (threads still suspended: %s)' % (
                                   self.current, STALL_SECONDS, len(self.x.points),
                                   [t for t in range(self.n) if not self.done[t] and t != self.current]),
                               list(self.x.choices), self.current)
            seen = self.ticks
        for t in threads:
            t.join(30)
        if self.abort is not None:
            raise self.abort
        return self.x


def preemptions(x, upto=None):
    n = 0
    pts = x.points if upto is None else x.points[:upto]
    for (k, running), c in zip(pts, x.choices):
        if running and c != 0:
            n += 1
    return n


def explore(make_bodies, in_scope, bound, check, first_filter=None, stats=None, root=()):
    """make_bodies() -> list of thread bodies (fresh state per execution);
    check(execution) is called for every complete execution.
    first_filter(i) restricts the FIRST deviation point to indices accepted (sharding);
    root: a fixed choice prefix (e.g. which thread starts) below which this call explores."""
    stats = stats if stats is not None else {}
    stats.setdefault('executions', 0)
    stats.setdefault('points', 0)

    def run(prefix):
        x = Baton(make_bodies(), prefix, in_scope).run()
        stats['executions'] += 1
        stats['points'] += len(x.points)
        return x

    def rec(prefix, depth):
        x = run(prefix)
        check(x)
        base = preemptions(x, len(prefix))
        for i in range(len(prefix), len(x.points)):
            k, running = x.points[i]
            cost = base + (1 if running else 0)
            if cost > bound:
                continue
            if depth == 0 and first_filter is not None and not first_filter(i):
                continue
            for alt in range(1, k):
                rec(x.choices[:i] + [alt], depth + 1)
    rec(list(root), 0)
    return stats
