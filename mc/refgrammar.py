"""RefGrammar - an independent recogniser for the language of src/yldprolog/prolog.g4.

* a hand-written maximal-munch lexer transcribed from the token rules (implicit literals first,
  then rule order for ties, WS and COMMENT skipped); a character that starts no token is a
  lexical error (ANTLR would report it and drop the character)
* a memoised span recogniser over the parser rules transcribed literally as a context-free
  grammar (EBNF expanded; precedence/associativity annotations do not change the language)
* `analyse(text)` -> Result(accepted, reason, heads): heads is the list of (name, arity) of the
  clause heads when every head has the plain form  atom  or  atom(args) , else None

It shares no code with ANTLR or the generated lexer/parser.
"""
import functools
import sys
sys.setrecursionlimit(max(sys.getrecursionlimit(), 6000))
import re

# ------------------------------------------------------------------ lexer
LITERALS = ['.', ':-', '\\+', ',', '->', ';', '(', ')', '/', '|']   # T__0 .. T__9
_ID_TAIL = re.compile(r'[a-zA-Z0-9_]*')


def _m_lit(lit):
    def m(s, i):
        return len(lit) if s.startswith(lit, i) else 0
    return m


def _m_variable(s, i):
    c = s[i]
    if ('A' <= c <= 'Z') or c == '_':
        return 1 + _ID_TAIL.match(s, i + 1).end() - (i + 1)
    return 0


def _m_atom(s, i):
    c = s[i]
    if ('a' <= c <= 'z') or c == '_':
        return 1 + _ID_TAIL.match(s, i + 1).end() - (i + 1)
    return 0


def _m_numeral(s, i):
    j = i
    while j < len(s) and '0' <= s[j] <= '9':
        j += 1
    return j - i


def _m_unop(s, i):
    return 1 if s[i] in '-+' else 0


_BINOPS = ['\\==', '\\=', '==', '=<', '>=', '=', '<', '>']


def _m_binop(s, i):
    best = 0
    for b in _BINOPS:
        if s.startswith(b, i) and len(b) > best:
            best = len(b)
    return best


def _m_string(s, i):
    """'\\'' ( ~'\\'' | '\\\\' '\\'' )* '\\''  - longest match by NFA simulation"""
    if s[i] != "'":
        return 0
    IN, ESC = 1, 2
    states = {IN}
    best = 0
    j = i + 1
    while j < len(s) and states:
        c = s[j]
        nxt = set()
        done = False
        for st in states:
            if st == IN:
                if c == "'":
                    done = True
                else:
                    nxt.add(IN)
                    if c == '\\':
                        nxt.add(ESC)
            else:  # ESC: the backslash of an escape pair was consumed, a quote must follow
                if c == "'":
                    nxt.add(IN)
        j += 1
        if done:
            best = j - i
        states = nxt
    return best


def _m_ws(s, i):
    return 1 if s[i] in ' \t\r\n' else 0


def _m_comment(s, i):
    if s[i] != '%':
        return 0
    j = i + 1
    while j < len(s):
        if s[j] in '\r\n':
            return j + 1 - i
        j += 1
    return 0


RULES = [(lit, _m_lit(lit)) for lit in LITERALS] + [
    ('TRUE', _m_lit('true')), ('FAIL', _m_lit('fail')), ('CUT', _m_lit('!')),
    ('VARIABLE', _m_variable), ('ATOM', _m_atom), ('NUMERAL', _m_numeral), ('UNOP', _m_unop),
    ('BINOP', _m_binop), ('STRING', _m_string), ('LBRACK', _m_lit('[')), ('RBRACK', _m_lit(']')),
    ('WS', _m_ws), ('COMMENT', _m_comment)]
TOKEN_KINDS = [r[0] for r in RULES if r[0] not in ('WS', 'COMMENT')]


class LexError(Exception):
    def __init__(self, pos, ch):
        Exception.__init__(self, 'no token starts at offset %d (%r)' % (pos, ch))
        self.pos = pos


def lex(text):
    toks = []
    i = 0
    n = len(text)
    while i < n:
        best, kind = 0, None
        for k, m in RULES:
            ln = m(text, i)
            if ln > best:
                best, kind = ln, k
        if best == 0:
            raise LexError(i, text[i])
        if kind not in ('WS', 'COMMENT'):
            toks.append((kind, text[i:i + best]))
        i += best
    return toks


# ------------------------------------------------------------------ grammar
G = {
    'clauseordirective': [['clause'], ['directive']],
    'clause': [['simplepredicate', '.'], ['simplepredicate', ':-', 'predicateexpression', '.']],
    'directive': [[':-', 'simplepredicate', '.']],
    'predicateexpression': [['simplepredicate'], ['\\+', 'predicateexpression'],
                            ['predicateexpression', ',', 'predicateexpression'],
                            ['predicateexpression', '->', 'predicateexpression'],
                            ['predicateexpression', ';', 'predicateexpression'],
                            ['(', 'predicateexpression', ')']],
    'simplepredicate': [['TRUE'], ['FAIL'], ['CUT'], ['termpredicate']],
    'termpredicate': [['term']],
    'termlist': [[], ['term', 'termtail']],
    'termtail': [[], [',', 'term', 'termtail']],
    'term': [['atom'], ['functor'], ['ATOM', '/', 'NUMERAL'], ['VARIABLE'], ['UNOP', 'term'],
             ['term', 'BINOP', 'term'], ['BINOP', '(', 'term', ',', 'term', ')'], ['(', 'term', ')'],
             ['LBRACK', 'termlist', 'RBRACK'], ['LBRACK', 'term', 'optcl', '|', 'VARIABLE', 'RBRACK']],
    'optcl': [[], [',', 'termlist']],
    'atom': [['ATOM'], ['NUMERAL'], ['STRING']],
    'functor': [['atom', '(', 'termlist', ')']],
}
NULLABLE = {'termlist', 'termtail', 'optcl'}


def _minlen(sym):
    if sym not in G:
        return 1
    return 0 if sym in NULLABLE else 1


@functools.lru_cache(maxsize=None)
def derives(sym, toks):
    """can grammar symbol sym derive exactly the token-kind tuple toks?"""
    if sym not in G:
        return len(toks) == 1 and toks[0] == sym
    if not toks:
        return sym in NULLABLE
    for prod in G[sym]:
        if _seq(tuple(prod), toks, sym):
            return True
    return False


@functools.lru_cache(maxsize=None)
def _seq(prod, toks, owner):
    if not prod:
        return not toks
    if len(prod) == 1:
        # unit / left-recursive guard: a production A -> A cannot occur; A -> B with the same
        # span is fine because the unit chains of this grammar are acyclic
        return derives(prod[0], toks)
    first, rest = prod[0], prod[1:]
    rest_min = sum(_minlen(s) for s in rest)
    lo = _minlen(first)
    hi = len(toks) - rest_min
    if first not in G:
        if not toks or toks[0] != first:
            return False
        return _seq(rest, toks[1:], owner)
    for k in range(lo, hi + 1):
        if k == len(toks) and first == owner:
            continue  # would recurse on the same span
        if derives(first, toks[:k]) and _seq(rest, toks[k:], owner):
            return True
    return False


# ------------------------------------------------------------------ fast recogniser
class _Rec:
    """Nondeterministic recursive-descent recogniser for the same language, linear-ish in the
    input, used for long inputs; every function maps a start position to the SET of possible
    end positions, so all alternatives are followed (no committed choice).  The left-recursive
    rules are written in their iterative form:
        term  = UNOP* primary (BINOP UNOP* primary)*
        pe    = upe ((',' | '->' | ';') upe)*        upe = '\\+' upe | '(' pe ')' | simplepredicate
    which describes the same strings as the recursive rules of prolog.g4.  `derives` above is the
    literal transcription; mc.selftest checks that both agree on all short token strings."""

    def __init__(self, kinds):
        self.k = list(kinds) + ['<eof>']
        self.memo = {}

    def tok(self, i):
        return self.k[i]

    def call(self, name, i):
        key = (name, i)
        r = self.memo.get(key)
        if r is None:
            r = self.memo[key] = frozenset(getattr(self, name)(i))
        return r

    def primary(self, i):
        t = self.tok(i)
        out = set()
        if t in ('ATOM', 'NUMERAL', 'STRING'):
            out.add(i + 1)
            if t == 'ATOM' and self.tok(i + 1) == '/' and self.tok(i + 2) == 'NUMERAL':
                out.add(i + 3)
            if self.tok(i + 1) == '(':
                for j in self.call('termlist', i + 2):
                    if self.tok(j) == ')':
                        out.add(j + 1)
        elif t == 'VARIABLE':
            out.add(i + 1)
        elif t == 'BINOP':
            if self.tok(i + 1) == '(':
                for j in self.call('term', i + 2):
                    if self.tok(j) == ',':
                        for m in self.call('term', j + 1):
                            if self.tok(m) == ')':
                                out.add(m + 1)
        elif t == '(':
            for j in self.call('term', i + 1):
                if self.tok(j) == ')':
                    out.add(j + 1)
        elif t == 'LBRACK':
            for j in self.call('termlist', i + 1):
                if self.tok(j) == 'RBRACK':
                    out.add(j + 1)
            for j in self.call('term', i + 1):
                ends = {j}
                if self.tok(j) == ',':
                    ends |= self.call('termlist', j + 1)
                for m in ends:
                    if self.tok(m) == '|' and self.tok(m + 1) == 'VARIABLE' and self.tok(m + 2) == 'RBRACK':
                        out.add(m + 3)
        return out

    def operand(self, i):
        while self.tok(i) == 'UNOP':
            i += 1
        return self.call('primary', i)

    def term(self, i):
        out = set()
        frontier = set(self.call('operand', i))
        while frontier:
            out |= frontier
            nxt = set()
            for j in frontier:
                if self.tok(j) == 'BINOP':
                    nxt |= self.call('operand', j + 1)
            frontier = nxt - out
        return out

    def termlist(self, i):
        out = {i}
        frontier = set(self.call('term', i))
        while frontier:
            out |= frontier
            nxt = set()
            for j in frontier:
                if self.tok(j) == ',':
                    nxt |= self.call('term', j + 1)
            frontier = nxt - out
        return out

    def simple(self, i):
        if self.tok(i) in ('TRUE', 'FAIL', 'CUT'):
            return {i + 1}
        return self.call('term', i)

    def upe(self, i):
        n = i
        while self.tok(n) == '\\+':
            n += 1
        out = set(self.call('simple', n))
        if self.tok(n) == '(':
            for j in self.call('pe', n + 1):
                if self.tok(j) == ')':
                    out.add(j + 1)
        return out

    def pe(self, i):
        out = set()
        frontier = set(self.call('upe', i))
        while frontier:
            out |= frontier
            nxt = set()
            for j in frontier:
                if self.tok(j) in (',', '->', ';'):
                    nxt |= self.call('upe', j + 1)
            frontier = nxt - out
        return out

    def clause(self, i):
        out = set()
        if self.tok(i) == ':-':
            for j in self.call('simple', i + 1):
                if self.tok(j) == '.':
                    out.add(j + 1)
            return out
        for j in self.call('simple', i):
            if self.tok(j) == '.':
                out.add(j + 1)
            if self.tok(j) == ':-':
                for m in self.call('pe', j + 1):
                    if self.tok(m) == '.':
                        out.add(m + 1)
        return out


def fast_clause(kinds):
    """is the token-kind sequence (ending in '.') exactly one clause or directive?"""
    r = _Rec(kinds)
    return len(kinds) in r.call('clause', 0)


class Result:
    def __init__(self, accepted, reason, heads=None, nclauses=0):
        self.accepted = accepted
        self.reason = reason
        self.heads = heads
        self.nclauses = nclauses


def unquote(s):
    """denotation of a STRING token, for backslash-free bodies plus \\' escapes"""
    body = s[1:-1]
    return body.replace("\\'", "'")


def head_of(seg):
    """seg: tokens of a clause without the final '.', -> (name, arity) | 'complex' | None (directive)"""
    kinds = [k for k, _ in seg]
    if kinds and kinds[0] == ':-':
        return None
    if ':-' in kinds:
        seg = seg[:kinds.index(':-')]
        kinds = [k for k, _ in seg]
    if not seg:
        return 'complex'
    k0, t0 = seg[0]
    if k0 not in ('ATOM', 'STRING', 'NUMERAL'):
        return 'complex'
    name = unquote(t0) if k0 == 'STRING' else t0
    if k0 == 'NUMERAL':
        return 'complex'
    if len(seg) == 1:
        return (name, 0)
    if kinds[1] != '(' or kinds[-1] != ')':
        return 'complex'
    depth = 0
    commas = 0
    inner = seg[2:-1]
    for k, _ in inner:
        if k in ('(', 'LBRACK'):
            depth += 1
        elif k in (')', 'RBRACK'):
            depth -= 1
            if depth < 0:
                return 'complex'   # the closing parenthesis was not the last token
        elif k == ',' and depth == 0:
            commas += 1
        elif k == 'BINOP' and depth == 0:
            pass
    if depth != 0:
        return 'complex'
    return (name, commas + 1 if inner else 0)


def analyse(text):
    try:
        toks = lex(text)
    except LexError as e:
        return Result(False, 'lexical: %s' % e)
    if not toks:
        return Result(True, 'empty program', [], 0)
    if toks[-1][0] != '.':
        return Result(False, 'input does not end with a full stop')
    heads = []
    seg = []
    n = 0
    for tk in toks:
        if tk[0] == '.':
            kinds = tuple(k for k, _ in seg) + ('.',)
            if not fast_clause(kinds):
                return Result(False, 'not a clause or directive: %s' % ' '.join(t for _, t in seg + [tk]))
            n += 1
            h = head_of(seg)
            if h is not None:
                heads.append(h)
            seg = []
        else:
            seg.append(tk)
    if any(h == 'complex' for h in heads):
        return Result(True, 'accepted', None, n)
    return Result(True, 'accepted', heads, n)


# ------------------------------------------------------------------ sentence enumeration
@functools.lru_cache(maxsize=None)
def sentences(sym, n):
    """all token-kind tuples of exactly n tokens derivable from sym"""
    if sym not in G:
        return frozenset([(sym,)]) if n == 1 else frozenset()
    out = set()
    for prod in G[sym]:
        out |= _seq_sentences(tuple(prod), n, sym)
    return frozenset(out)


@functools.lru_cache(maxsize=None)
def _seq_sentences(prod, n, owner):
    if not prod:
        return frozenset([()]) if n == 0 else frozenset()
    first, rest = prod[0], prod[1:]
    rest_min = sum(_minlen(s) for s in rest)
    out = set()
    for k in range(_minlen(first), n - rest_min + 1):
        if k == n and first == owner and not rest:
            continue
        a = sentences(first, k)
        if not a:
            continue
        b = _seq_sentences(rest, n - k, owner)
        for x in a:
            for y in b:
                out.add(x + y)
    return frozenset(out)


REPRESENTATIVE = {'ATOM': 'a', 'VARIABLE': 'X', 'NUMERAL': '1', 'STRING': "'q'", 'UNOP': '-', 'BINOP': '=',
                  'TRUE': 'true', 'FAIL': 'fail', 'CUT': '!', 'LBRACK': '[', 'RBRACK': ']'}


def spell(kinds):
    return ' '.join(REPRESENTATIVE.get(k, k) for k in kinds)
