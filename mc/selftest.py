"""setup_cmd: nothing has to be built (pure Python).  Verifies that the tool chain is usable
and that the reference models pass their own sanity checks (textbook answers that do not
involve the implementation)."""
import json
import os
import sys

VERIF = os.path.dirname(os.path.dirname(os.path.abspath(__file__)))


def main():
    sys.path.insert(0, VERIF)
    from mc import impl  # noqa: F401  (asserts that yldprolog comes from the examined tree)
    from mc.refprolog import Ref, unify, sto
    from mc.terms import F, A, V, C, L, NIL, call, conj, CUT, FAIL, TRUE
    from mc import refgrammar as rg

    # --- RefProlog: textbook behaviour
    X, Y, Z = V('X'), V('Y'), V('Z')
    r = Ref()
    r.consult([(F('m', C(1)), None), (F('m', C(2)), None),
               (F('a', X), conj(call(F('m', X)), CUT)), (F('a', C(9)), None),
               (F('b', X, Y), conj(call(F('m', X)), (';', ('->', call(F('=', X, C(1))), call(F('=', Y, A('one')))), call(F('=', Y, A('other')))))),
               (F('n', X), ('\\+', call(F('m', X)))),
               (F('app', NIL, X, X), None), (F('app', L([V('H')], V('T')), X, L([V('H')], V('R'))), call(F('app', V('T'), X, V('R'))))])
    q = lambda g, o: r.query(g, o)[0]  # noqa: E731
    assert q(F('a', V('Q')), [V('Q')]) == [(('c', 1),)]
    assert q(F('b', V('Q'), V('W')), [V('Q'), V('W')]) == [(('c', 1), ('a', 'one')), (('c', 2), ('a', 'other'))]
    assert q(F('n', C(3)), []) == [()] and q(F('n', C(1)), []) == []
    assert len(q(F('app', V('Q'), V('W'), L([C(1), C(2), C(3)])), [V('Q'), V('W')])) == 4
    assert q(F('findall', X, F('m', X), V('Lq')), [V('Lq')]) == [(('f', '.', (('c', 1), ('f', '.', (('c', 2), ('a', '[]'))))),)]
    # logical update view: the drain loop visits every fact once, the counter loop terminates
    r2 = Ref()
    for t in (A('a'), A('b')):
        r2.assert_fact(F('p', t))
    r2.consult([(A('drain'), conj(call(F('p', X)), call(F('retract', F('p', X))), FAIL)), (A('drain'), None),
                (F('t', X), conj(call(F('assertz', F('p', C(1)))), call(F('p', X)), call(F('assertz', F('p', C(2))))))])
    assert r2.query(A('drain'), [])[0] == [()] and r2.facts(('p', 1)) == []
    assert [a[0] for a in r2.query(F('t', V('Q')), [V('Q')])[0]] == [('c', 1)]
    # STO detection
    assert sto(F('f', X, X), F('f', Y, F('g', Y)), {}) and not sto(F('f', X, A('a')), F('f', A('b'), X), {})
    assert unify(F('f', X), F('f', A('a'), A('b')), {}) is None

    # --- RefGrammar: literal CFG and fast recogniser agree on every sentence of <= 5 tokens
    #     and all their single-token insertions/deletions/substitutions
    n = 0
    for ln in range(2, 6):
        for s in rg.sentences('clauseordirective', ln):
            cands = {s}
            for i in range(len(s)):
                cands.add(s[:i] + s[i + 1:])
                for k in rg.TOKEN_KINDS:
                    cands.add(s[:i] + (k,) + s[i:])
                    cands.add(s[:i] + (k,) + s[i + 1:])
            for c in cands:
                if not c or c[-1] != '.' or '.' in c[:-1]:
                    continue
                n += 1
                assert rg.derives('clauseordirective', c) == rg.fast_clause(c), c
    assert rg.analyse("foo('a\\'b', X) :- \\+ bar, X \\== 1. % c\n").heads == [('foo', 2)]
    assert not rg.analyse('foo(a). ) garbage').accepted and not rg.analyse('a(X) :- b(X),, c(X).').accepted

    with open(os.path.join(VERIF, 'MANIFEST.json')) as f:
        man = json.load(f)
    assert man['version'] == 1 and len(man['checks']) + len(man.get('not_applicable', [])) == 20
    os.makedirs(os.path.join(VERIF, 'evidence'), exist_ok=True)
    print('selftest ok: yldprolog from %s; reference models sane; recognisers agree on %d token strings' % (impl.SRC, n))


if __name__ == '__main__':
    main()
