"""setup_cmd: nothing has to be built (pure Python); verify that the tool chain is usable."""
import json
import os
import sys

VERIF = os.path.dirname(os.path.dirname(os.path.abspath(__file__)))


def main():
    sys.path.insert(0, VERIF)
    from mc import impl  # noqa: F401  (asserts that yldprolog comes from /repo/src)
    from mc.refprolog import Ref
    from mc.terms import F, A, V, C
    r = Ref()
    r.consult([(F('p', C(1)), None), (F('p', C(2)), None)])
    ans, st = r.query(F('p', V('X')), [V('X')])
    assert st == 'complete' and len(ans) == 2
    with open(os.path.join(VERIF, 'MANIFEST.json')) as f:
        man = json.load(f)
    assert man['version'] == 1
    os.makedirs(os.path.join(VERIF, 'evidence'), exist_ok=True)
    print('selftest ok: yldprolog from', impl.SRC)


if __name__ == '__main__':
    main()
