"""Deterministic step budget for runs of the implementation (no wall clock in the verdict).

Counts interpreter events (function entries, generator resumptions, backward/forward jumps)
with sys.monitoring while the implementation runs; when the budget is exceeded the callback
raises Exceeded inside the running code, which unwinds to the harness.  A search that the
reference finishes in s steps gets a budget proportional to s, so "does not terminate" is
decided without a timeout.
"""
import sys

_mon = sys.monitoring
_TOOL = 4
_active = [None]


class Exceeded(BaseException):
    pass


class StepBudget:
    def __init__(self, limit):
        self.limit = limit
        self.count = 0
        self.tripped = False

    def _tick(self):
        self.count += 1
        if self.count > self.limit and not self.tripped:
            self.tripped = True
            _mon.set_events(_TOOL, 0)
            raise Exceeded('more than %d interpreter events' % self.limit)

    def _cb2(self, code, off):
        self._tick()

    def _cb3(self, code, a, b):
        # CPython 3.12 does not run the exception handlers of the frame in which an
        # exception escapes from a JUMP callback, so jumps are only counted; the budget
        # trips at the next function entry / generator resumption.  A loop that makes no
        # call at all trips here at three times the budget (and is then handled by an
        # outer frame of the harness).
        self.count += 1
        if self.count > 3 * self.limit and not self.tripped:
            self._tick()

    def __enter__(self):
        if _active[0] is not None:
            raise RuntimeError('nested StepBudget')
        _active[0] = self
        try:
            _mon.use_tool_id(_TOOL, 'verif-step-budget')
        except ValueError:
            pass
        E = _mon.events
        _mon.register_callback(_TOOL, E.PY_START, self._cb2)
        _mon.register_callback(_TOOL, E.PY_RESUME, self._cb2)
        _mon.register_callback(_TOOL, E.JUMP, self._cb3)
        _mon.set_events(_TOOL, E.PY_START | E.PY_RESUME | E.JUMP)
        return self

    def __exit__(self, *exc):
        _mon.set_events(_TOOL, 0)
        E = _mon.events
        for ev in (E.PY_START, E.PY_RESUME, E.JUMP):
            _mon.register_callback(_TOOL, ev, None)
        try:
            _mon.free_tool_id(_TOOL)
        except ValueError:
            pass
        _active[0] = None
        return False
