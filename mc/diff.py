"""Differential execution of one (program, facts, queries) case: implementation vs RefProlog."""
from . import impl
from .refprolog import Ref, Budget, Cyclic, Unspecified, canon
from .terms import show_program, show_term, term_vars
from .runner import watchdog, Hang
from .budget import StepBudget, Exceeded

_text_cache = {}


def compile_cached(text):
    """compile a *shared* helper script once per process"""
    r = _text_cache.get(text)
    if r is None:
        r = _text_cache[text] = impl.compile_text(text)
    return r


def show_obs(ans):
    def st(t):
        if t[0] == 'v':
            return '_G%s' % (t[1],)
        if t[0] == 'a':
            return t[1]
        if t[0] == 'c':
            return repr(t[1])
        return '%s(%s)' % (t[1], ','.join(st(a) for a in t[2]))
    return '(' + ', '.join(st(t) for t in ans) + ')'


def show_answers(answers, limit=12):
    s = [show_obs(a) for a in answers[:limit]]
    if len(answers) > limit:
        s.append('... %d more' % (len(answers) - limit))
    return '[' + ' '.join(s) + ']'


def script_text(sc):
    """a script is (clauses, overwrite, shared[, text]); text overrides the printed clauses
    (used when the exact source spelling is the thing under test)"""
    if len(sc) > 3 and sc[3] is not None:
        return sc[3]
    return show_program(sc[0])


# 'fresh': every case gets a new engine; 'cleared': an engine that was used and then cleared
ENGINE = {'mode': 'fresh'}


class Case:
    """one differential case.  scripts: [(clauses, overwrite, shared)], facts: [(term, append)],
    queries: [goal] (observed: all variables of the goal)"""

    def __init__(self, scripts, facts, queries, repeat=2, ref_steps=20000, ref_depth=60, budget=False,
                 anon=()):
        self.budget = budget
        # names of query variables whose value is observed with the unbound variables inside
        # it made anonymous (sharing of unbound variables inside a findall bag is not fixed by
        # the properties)
        self.anon = tuple(anon)
        self.scripts = scripts
        self.facts = facts
        self.queries = queries
        self.repeat = repeat
        self.ref_steps = ref_steps
        self.ref_depth = ref_depth
        self.engine_mode = ENGINE['mode']

    def describe(self):
        d = {'scripts': [{'text': script_text(sc), 'overwrite': sc[1]} for sc in self.scripts],
             'facts': [{'fact': show_term(t), 'append': ap} for t, ap in self.facts],
             'queries': [show_term(q) for q in self.queries]}
        return d

    def to_json(self):
        return {'scripts': [[_j(sc[0]), sc[1], sc[2], script_text(sc)] for sc in self.scripts],
                'facts': [[_j(t), ap] for t, ap in self.facts],
                'queries': [_j(q) for q in self.queries],
                'repeat': self.repeat, 'ref_steps': self.ref_steps, 'ref_depth': self.ref_depth,
                'budget': self.budget, 'anon': list(self.anon), 'engine_mode': self.engine_mode,
                'readable': self.describe()}

    @staticmethod
    def from_json(d):
        c = Case([(_t(sc[0]), sc[1], sc[2], sc[3]) for sc in d['scripts']],
                 [(_t(t), ap) for t, ap in d['facts']],
                 [_t(q) for q in d['queries']], d.get('repeat', 2),
                 d.get('ref_steps', 20000), d.get('ref_depth', 60), d.get('budget', False), d.get('anon', ()))
        c.engine_mode = d.get('engine_mode', 'fresh')
        return c

    def run(self):
        """-> dict(status, sig, detail, outcome, steps, nontrivial)
        status: 'ok' | 'violation' | 'skip' """
        # --- reference
        ref = Ref(self.ref_steps, self.ref_depth)
        for sc in self.scripts:
            ref.consult(sc[0], sc[1])
        for t, ap in self.facts:
            ref.assert_fact(t, append=ap)
        # --- implementation
        try:
            with watchdog():
                pytexts = []
                for sc in self.scripts:
                    text = script_text(sc)
                    pytexts.append(compile_cached(text) if sc[2] else impl.compile_text(text))
        except Hang as e:
            return self._viol('compile:hang', str(e))
        except Exception as e:  # noqa: BLE001
            return self._viol('compile:' + impl.exc_sig(e), 'the compiler raised %r' % (e,))
        try:
            yp = impl.YP()
            caller = yp
            if self.engine_mode == 'cleared':
                # an engine that was used before and cleared: a program loaded now behaves as on a new
                # one - also for a caller that builds its queries from the Atom objects it obtained
                # BEFORE the clear
                yp.assert_fact(yp.atom('junk'), [yp.atom('a'), yp.ATOM_NIL])
                for _ in yp.query('junk', [yp.variable(), yp.variable()]):
                    pass
                names = set(['[]'])
                for q in self.queries:
                    impl.atom_names(q, names)
                caller = impl.HeldAtoms(yp, sorted(names))
                yp.clear()
            for sc, py in zip(self.scripts, pytexts):
                yp.load_script_from_string(py, fn=impl.SCRIPT_FN, overwrite=sc[1])
        except Exception as e:  # noqa: BLE001
            return self._viol('load:' + impl.exc_sig(e), 'loading the compiled code raised %r' % (e,))
        try:
            for t, ap in self.facts:
                vm = {}
                if t[0] == 'a':
                    yp.assert_fact(yp.atom(t[1]), [], ap)
                else:
                    yp.assert_fact(yp.atom(t[1]), [impl.to_engine(yp, a, vm) for a in t[2]], ap)
        except Exception as e:  # noqa: BLE001
            return self._viol('assert_fact:' + impl.exc_sig(e), 'assert_fact raised %r' % (e,))
        outcome = []
        steps = 0
        nontrivial = False
        skipped_q = 0
        cut_short = False
        for rep in range(self.repeat):
            for q in self.queries:
                obs = [('v', k) for k in term_vars(q)]
                try:
                    ref.steps = 0
                    exp, rstatus = ref.query(q, obs)
                except (Cyclic, Unspecified) as e:
                    # unspecified behaviour (a cyclic term would be needed, ...): this query is
                    # out of scope, the implementation is not run on it
                    skipped_q += 1
                    outcome.append((type(e).__name__,))
                    continue
                cap = len(exp) + 1 if rstatus == 'complete' else min(len(exp), 5)
                anon_ix = [i for i, v in enumerate(obs) if v[1] in self.anon]
                if anon_ix:
                    exp = [anonymize(a, anon_ix) for a in exp]
                if rstatus != 'complete':
                    exp = exp[:cap]
                    if cap == 0:
                        outcome.append(('budget', 0))
                        cut_short = True
                        break
                try:
                    with watchdog():
                        if self.budget:
                            with StepBudget(2000 * ref.steps + 200000):
                                got, istatus, exc = impl.run_query(caller, q, obs, cap=cap)
                        else:
                            got, istatus, exc = impl.run_query(caller, q, obs, cap=cap)
                except Exceeded as e:
                    return self._viol('query:nontermination',
                                      'query %s: %s although the reference search needs only %d steps (%s); '
                                      'reference answers: %s' % (show_term(q), e, ref.steps, rstatus, show_answers(exp)))
                except Hang as e:
                    return self._viol('query:hang', '%s: %s; reference answers: %s'
                                      % (show_term(q), e, show_answers(exp)))
                steps += len(got) + 1
                if anon_ix:
                    got = [anonymize(a, anon_ix) for a in got]
                if istatus == 'exception':
                    return self._viol('query:' + impl.exc_sig(exc),
                                      'query %s (run %d) raised %r after %d answer(s); reference: %s %s'
                                      % (show_term(q), rep + 1, exc, len(got), rstatus, show_answers(exp)))
                if got != exp:
                    kind = 'answers-differ'
                    return self._viol(kind, 'query %s (run %d)\n  expected (%s): %s\n  observed (%s): %s'
                                      % (show_term(q), rep + 1, rstatus, show_answers(exp), istatus,
                                         show_answers(got)))
                if exp:
                    nontrivial = True
                outcome.append((rstatus, tuple(exp)))
                if rstatus != 'complete':
                    # the reference search was cut by its budget and the implementation was asked for a prefix only:
                    # the two have not executed the same side effects, so nothing AFTER this query is compared
                    cut_short = True
                    break
            if cut_short:
                break
        if skipped_q == len(self.queries) * self.repeat:
            return {'status': 'skip', 'reason': 'unspecified (cyclic term / unbound goal)'}
        return {'status': 'ok', 'outcome': tuple(outcome), 'steps': steps, 'nontrivial': nontrivial,
                'skipped_queries': skipped_q, 'queries': len(self.queries) * self.repeat - skipped_q}

    def _viol(self, sig, detail):
        d = self.describe()
        txt = '\n'.join('--- script (overwrite=%s)\n%s' % (s['overwrite'], s['text']) for s in d['scripts']
                        if True)
        if d['facts']:
            txt += '--- dynamic facts: %s\n' % ', '.join(f['fact'] for f in d['facts'])
        return {'status': 'violation', 'sig': sig, 'detail': txt + detail}


def anonymize(ans, positions):
    def an(t):
        if t[0] == 'v':
            return ('v', '_')
        if t[0] == 'f':
            return ('f', t[1], tuple(an(a) for a in t[2]))
        return t
    return tuple(an(t) if i in positions else t for i, t in enumerate(ans))


def _j(x):
    if isinstance(x, tuple):
        return {'t': [_j(i) for i in x]}
    if isinstance(x, list):
        return [_j(i) for i in x]
    return x


def _t(x):
    if isinstance(x, dict) and 't' in x:
        return tuple(_t(i) for i in x['t'])
    if isinstance(x, list):
        return [_t(i) for i in x]
    return x


def account(acc, index, case, res, key=None):
    """fold one case result into the accumulator"""
    acc.n['evaluations'] += 1
    if res['status'] == 'skip':
        acc.skipped[res['reason']] += 1
        return
    acc.n['validated'] += 1
    if res['status'] == 'violation':
        acc.violation(res['sig'], index, case.to_json(), res['detail'], key=key)
        return
    acc.n['transitions'] += res['steps']
    acc.n['queries_compared'] += res.get('queries', 0)
    if res.get('skipped_queries'):
        acc.skipped['query needing a cyclic term'] += res['skipped_queries']
    if res['nontrivial']:
        acc.n['nontrivial'] += 1
    acc.outcome(res['outcome'])
