#!/venv/bin/python
"""Evaluate a seeded change produced by a sub-agent.

  tools/seedeval.py <seed dir, e.g. /tmp/seed_C05> <name for /verif/seeded/> <property> [checks,comma (default: the property's)]

In a fresh scratch worktree of /repo: demo passes on the unchanged tree, patch applies, the
repository's tests pass with it, demo fails with it; then the given checks are run against the
patched worktree (VERIF_REPO).  If everything is confirmed the change is stored under
/verif/seeded/<name>/ (patch.diff, demo.py, meta.json)."""
import json
import os
import shutil
import subprocess
import sys
import time

VERIF = os.path.dirname(os.path.dirname(os.path.abspath(__file__)))


def sh(cmd, **kw):
    return subprocess.run(cmd, shell=True, text=True, capture_output=True, **kw)


def main():
    src, name, prop = sys.argv[1], sys.argv[2], sys.argv[3]
    checks = (sys.argv[4] if len(sys.argv) > 4 else prop).split(',')
    tier = os.environ.get('TIER', 'quick')
    patch = os.path.join(src, 'patch.diff')
    demo = os.path.join(src, 'demo.py')
    wt = '/tmp/eval_%s' % name
    sh('git -C /repo worktree remove --force %s' % wt)
    shutil.rmtree(wt, ignore_errors=True)
    r = sh('git -C /repo worktree add --detach %s HEAD' % wt)
    assert r.returncode == 0, r.stderr
    meta = {'property': prop, 'name': name, 'ran': []}
    ok = True
    try:
        shutil.copy(demo, os.path.join(wt, 'demo.py'))
        env = 'env -u YLDPROLOG_VERIF PYTHONPATH=%s/src' % wt
        r = sh('cd %s && %s /venv/bin/python demo.py' % (wt, env))
        meta['demo_unchanged'] = {'exit': r.returncode, 'tail': (r.stdout + r.stderr)[-200:]}
        print('demo on unchanged tree: exit', r.returncode, (r.stdout + r.stderr).strip()[-100:])
        ok &= r.returncode == 0
        r = sh('git -C %s apply %s' % (wt, patch))
        if r.returncode:
            # the tree has moved on since the change was made (later fix: commits): three-way merge
            r = sh('git -C %s apply --3way %s && ! grep -rl "^<<<<<<< " %s/src' % (wt, patch, wt))
            sh('git -C %s reset -q' % wt)
        print('patch applies:', r.returncode == 0, r.stderr[:200])
        ok &= r.returncode == 0
        r = sh('cd %s && %s /venv/bin/python -m pytest -q -p no:cacheprovider 2>&1 | tail -2' % (wt, env))
        last = r.stdout.strip().splitlines()[-1] if r.stdout.strip() else ''
        print('tests with change:', last)
        meta['tests_with_change'] = last
        ok &= ('61 passed' in last and 'failed' not in last)
        r = sh('cd %s && %s /venv/bin/python demo.py' % (wt, env))
        meta['demo_changed'] = {'exit': r.returncode, 'tail': (r.stdout + r.stderr)[-300:]}
        print('demo with change: exit', r.returncode, (r.stdout + r.stderr).strip()[-100:])
        ok &= r.returncode != 0
        meta['confirmed'] = bool(ok)
        verdicts = {}
        for c in checks:
            t0 = time.time()
            r = sh('cd %s && VERIF_REPO=%s ./check %s --tier %s' % (VERIF, wt, c, tier))
            lines = r.stdout.strip().splitlines()
            groups = [l for l in lines if l.startswith('--- ')]
            verdict = 'DETECTED' if r.returncode == 1 and any(l.startswith('VIOLATION') for l in lines) else 'MISSED' if r.returncode == 0 else 'ERROR'
            verdicts[c] = {'tier': tier, 'verdict': verdict, 'groups': groups[:6], 'seconds': round(time.time() - t0, 1)}
            print('%s (%s): %s' % (c, tier, verdict))
            for g in groups[:5]:
                print('    ', g[:150])
            if verdict == 'ERROR':
                print(r.stdout[-1200:], r.stderr[-1200:])
        meta['checks'] = verdicts
    finally:
        sh('git -C /repo worktree remove --force %s' % wt)
        shutil.rmtree(wt, ignore_errors=True)
    if ok:
        d = os.path.join(VERIF, 'seeded', name)
        os.makedirs(d, exist_ok=True)
        shutil.copy(patch, os.path.join(d, 'patch.diff'))
        shutil.copy(demo, os.path.join(d, 'demo.py'))
        notes = os.path.join(src, 'NOTES.md')
        if os.path.exists(notes):
            shutil.copy(notes, os.path.join(d, 'NOTES.md'))
        old = {}
        mp = os.path.join(d, 'meta.json')
        if os.path.exists(mp):
            old = json.load(open(mp))
        old.update(meta)
        json.dump(old, open(mp, 'w'), indent=1)
        print('stored in', d)
    else:
        print('NOT CONFIRMED - not stored')
    return 0


if __name__ == '__main__':
    sys.exit(main())
