#!/bin/bash
# runs every registered check (tier $1, default quick) against /repo and prints one line each
cd "$(dirname "$0")/.."
tier=${1:-quick}
rc=0
for i in ${ONLY:-$(seq -w 1 20)}; do
  id=C$i
  start=$(date +%s)
  out=$(./check $id --tier $tier 2>/dev/null)
  code=$?
  end=$(date +%s)
  echo "$id exit=$code $((end-start))s $(echo "$out" | grep "^$id tier" | cut -c1-160)"
  echo "$out" | grep -E "^(VIOLATION|KNOWN-FINDING|ERROR)" | head -5
  [ $code -ne 0 ] && rc=1
done
exit $rc
