#!/venv/bin/python
"""Writes seeded/MATRIX.md from the meta.json files that tools/seedeval.py stored: for every seeded change
the verdicts of the checks it was evaluated with, AT THE TIME it was (last) evaluated.  Nothing is re-run
(tools/matrix.py does that; with ~300 changes it needs several hours)."""
import json
import os

VERIF = os.path.dirname(os.path.dirname(os.path.abspath(__file__)))
SEEDED = os.path.join(VERIF, 'seeded')


def main():
    rows = []
    for name in sorted(os.listdir(SEEDED)):
        mp = os.path.join(SEEDED, name, 'meta.json')
        if not os.path.isfile(mp):
            continue
        m = json.load(open(mp))
        checks = m.get('checks', {})
        det = sorted(c for c, v in checks.items() if v.get('verdict') == 'DETECTED')
        mis = sorted(c for c, v in checks.items() if v.get('verdict') == 'MISSED')
        err = sorted(c for c, v in checks.items() if v.get('verdict') not in ('DETECTED', 'MISSED'))
        rows.append((name, m.get('property', '?'), m.get('confirmed'), det, mis, err))
    out = ['# Seeded changes and the checks that report them', '',
           'One line per change kept under `seeded/`: the property it was written against, whether the change was confirmed',
           '(patch applies, the 61 tests pass with it, the demo passes without and fails with it), and the verdicts of the checks',
           'it was evaluated with (quick tier) when it was last evaluated - see DESIGN.md §6 for what was added to a check',
           'after a miss, and for the changes judged "not demanded".', '',
           '| change | property | confirmed | reported by | not reported by | other |', '|---|---|---|---|---|---|']
    n_det = 0
    for name, prop, conf, det, mis, err in rows:
        n_det += 1 if det else 0
        out.append('| %s | %s | %s | %s | %s | %s |' % (name, prop, 'yes' if conf else 'no', ' '.join(det), ' '.join(mis), ' '.join(err)))
    out += ['', '%d changes, %d of them reported by at least one of the checks they were evaluated with.' % (len(rows), n_det), '']
    with open(os.path.join(SEEDED, 'MATRIX.md'), 'w') as f:
        f.write('\n'.join(out))
    json.dump({r[0]: {'property': r[1], 'confirmed': r[2], 'reported_by': r[3], 'not_reported_by': r[4], 'other': r[5]} for r in rows},
              open(os.path.join(SEEDED, 'matrix.json'), 'w'), indent=1, sort_keys=True)
    print(len(rows), n_det)


if __name__ == '__main__':
    main()
