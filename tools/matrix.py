#!/venv/bin/python
"""Runs the quick checks (default: the seed's own property check and the checks that caught it before; --full: all 20) against every stored seeded change (scratch worktree + VERIF_REPO) and
writes seeded/MATRIX.md and seeded/matrix.json.  usage: tools/matrix.py [seed-name-substring] [checks,comma]"""
import json
import os
import shutil
import subprocess
import sys
import time

VERIF = os.path.dirname(os.path.dirname(os.path.abspath(__file__)))
OUT = os.environ.get('MATRIX_OUT', os.path.join(VERIF, 'seeded'))


def sh(cmd):
    return subprocess.run(cmd, shell=True, text=True, capture_output=True)


def main():
    args = [a for a in sys.argv[1:] if a != '--full']
    full = '--full' in sys.argv
    only = args[0] if args else ''
    allchecks = ['C%02d' % i for i in range(1, 21)]
    checks = args[1].split(',') if len(args) > 1 else allchecks
    seeds = sorted(d for d in os.listdir(os.path.join(VERIF, 'seeded')) if os.path.isdir(os.path.join(VERIF, 'seeded', d)) and only in d)
    res = {}
    mp = os.path.join(OUT, 'matrix.json')
    if os.path.exists(mp):
        res = json.load(open(mp))
    for name in seeds:
        wt = '/tmp/matrix_%s' % name
        sh('git -C /repo worktree remove --force %s' % wt)
        shutil.rmtree(wt, ignore_errors=True)
        r = sh('git -C /repo worktree add --detach %s HEAD' % wt)
        if r.returncode:
            print('worktree failed', r.stderr)
            continue
        try:
            r = sh('git -C %s apply %s' % (wt, os.path.join(VERIF, 'seeded', name, 'patch.diff')))
            if r.returncode:
                # the tree has moved on since the change was made (later fix: commits): three-way merge
                r = sh('git -C %s apply --3way %s && ! grep -rl "^<<<<<<< " %s/src' % (wt, os.path.join(VERIF, 'seeded', name, 'patch.diff'), wt))
                sh('git -C %s reset -q' % wt)
            if r.returncode:
                print(name, 'PATCH DOES NOT APPLY', r.stderr[:200])
                res.setdefault(name, {})['_patch'] = 'does not apply'
                continue
            r = sh('cd %s && env -u YLDPROLOG_VERIF PYTHONPATH=%s/src /venv/bin/python -m pytest -q -p no:cacheprovider 2>&1 | tail -1' % (wt, wt))
            res.setdefault(name, {})['_tests'] = r.stdout.strip()
            r = sh('cd %s && cp %s/seeded/%s/demo.py . && env -u YLDPROLOG_VERIF PYTHONPATH=%s/src /venv/bin/python demo.py >/dev/null 2>&1; echo $?' % (wt, VERIF, name, wt))
            res[name]['_demo_exit_with_change'] = r.stdout.strip()
            mine = checks
            if not full and len(args) < 2:
                # the seed's own property, plus every check that detected it when it was evaluated
                own = name[:3]
                mine = [own]
                mpath = os.path.join(VERIF, 'seeded', name, 'meta.json')
                if os.path.exists(mpath):
                    meta = json.load(open(mpath))
                    mine += [c for c, v in meta.get('checks', {}).items() if v.get('verdict') == 'DETECTED' and c != own]
                    if meta.get('property') and meta['property'] not in mine:
                        mine.append(meta['property'])
            for c in mine:
                t0 = time.time()
                r = sh('cd %s && VERIF_REPO=%s ./check %s --tier quick' % (VERIF, wt, c))
                lines = r.stdout.strip().splitlines()
                v = 'DETECTED' if r.returncode == 1 and any(l.startswith('VIOLATION') for l in lines) else 'silent' if r.returncode == 0 else 'ERROR'
                res[name][c] = v
                print(name, c, v, '%.0fs' % (time.time() - t0), flush=True)
        finally:
            sh('git -C /repo worktree remove --force %s' % wt)
            shutil.rmtree(wt, ignore_errors=True)
        json.dump(res, open(mp, 'w'), indent=1, sort_keys=True)
    allc = ['C%02d' % i for i in range(1, 21)]
    with open(os.path.join(OUT, 'MATRIX.md'), 'w') as f:
        f.write('# seeded changes x quick checks (D = reports a violation, . = silent, E = error, blank = not run)\n\n')
        f.write('| seeded change | tests | demo | ' + ' | '.join(c[1:] for c in allc) + ' |\n')
        f.write('|---|---|---|' + '---|' * len(allc) + '\n')
        for name in sorted(res):
            row = res[name]
            f.write('| %s | %s | %s | ' % (name, 'pass' if '61 passed' in row.get('_tests', '') else row.get('_tests', '?')[:20],
                                            'fails' if row.get('_demo_exit_with_change') not in ('0', None) else 'passes?'))
            f.write(' | '.join({'DETECTED': 'D', 'silent': '.', 'ERROR': 'E'}.get(row.get(c), ' ') for c in allc) + ' |\n')
    print('written', os.path.join(OUT, 'MATRIX.md'))


if __name__ == '__main__':
    main()
